(** Refinement (C02), part 4: derived structs and enums, and the main theorem. *)
From Deserr Require Import Base Pointer Kinds Value Prog Utf8 Scalars ScalarSpec Types Deser Spec Monitors.
From Deserr.proofs Require Import ProgProofs ScalarProofs TyInd C08Proofs RefineBase RefineLoops RefineFields.
Local Open Scope list_scope.

Lemma run_fields_ref a cfs sk d mk ms l :
  Forall child_ref cfs ->
  Ref (run_fields a (rfields_of cfs) sk d mk ms l) (s_fields (spfields_of cfs) sk d mk ms l).
Proof.
  intros Hch s. unfold run_fields. rewrite run_bind.
  set (sts0 := map (fun f => state_of_default (rf_default f)) (rfields_of cfs)).
  destruct (entries_ref a cfs d l Hch ms None sts0 s) as (acc1 & ext1 & Hrun1 & Hf1 & Hu1 & Hacc1).
  cbv zeta in Hrun1, Hf1, Hu1, Hacc1.
  set (members := map (s_member (spfields_of cfs) d l) ms) in *.
  rewrite Hrun1. cbn iota beta. rewrite run_bind.
  set (sts := fold_left apply_member members sts0) in *.
  destruct (missing_loop_ref a l (rfields_of cfs) sts acc1 (s ++ ext1)) as (ext2 & acc2 & Hrun2 & Hf2 & Hu2 & Hacc2).
  rewrite Hrun2.
  pose proof (states_values_forall2 cfs members) as HF. cbv zeta in HF. fold sts0 in HF. fold sts in HF.
  set (vals := map (fun p => s_field_value (fst p) (snd p) members) (indexed_nat (spfields_of cfs))) in *.
  assert (Hlen : List.length sts = List.length cfs).
  { unfold sts. rewrite fold_apply_length. unfold sts0, rfields_of. rewrite !map_length. reflexivity. }
  destruct (expected_missing_values l cfs sts vals HF Hlen) as [Hmf Hmu]. cbv zeta in Hmf, Hmu.
  unfold s_fields. cbv zeta. fold members. fold vals.
  rewrite <- Hmf, <- Hmu. fold (member_faults members). fold (member_ucalls members).
  set (em := expected_missing l (rfields_of cfs) sts) in *.
  destruct acc2 as [e|].
  - (* some report was made *)
    cbn [run]. exists (RErr e), (ext1 ++ ext2). rewrite app_assoc. split; [reflexivity|].
    assert (Hne : member_faults members ++ map (fault_of_mreport l) em <> []).
    { intros Hnil. apply app_eq_nil in Hnil. destruct Hnil as [Hn1 Hn2]. apply map_eq_nil in Hn2.
      assert (acc1 = None) as -> by (apply Hacc1; split; [reflexivity|exact Hn1]).
      assert (Some e = None) by (apply Hacc2; split; [reflexivity|exact Hn2]). discriminate. }
    rewrite trace_faults_app, trace_ucalls_app, Hf1, Hf2, Hu1, Hu2.
    destruct (member_faults members ++ map (fault_of_mreport l) em) eqn:Ef; [contradiction|].
    cbn [s_faults s_ucalls s_out res_matches]. repeat split. discriminate.
  - (* no report at all: every state is a value *)
    destruct (proj1 Hacc2 eq_refl) as [-> Hem]. destruct (proj1 Hacc1 eq_refl) as [_ Hmem].
    rewrite Hem, Hmem in *. cbn [map flat_map app].
    assert (Hall : forall st, In st sts -> exists o, st = FSome o).
    { intros st Hin.
      assert (H1 : st <> FMissing).
      { apply (expected_missing_nil l (rfields_of cfs) sts); [unfold rfields_of; rewrite map_length; symmetry; exact Hlen|exact Hem|exact Hin]. }
      assert (H2 : st <> FErr).
      { apply (fold_apply_no_err members) with (sts := sts0); [| |exact Hin].
        - intros m Hm Hfst. unfold members in Hm. apply in_map_iff in Hm. destruct Hm as (kv & <- & Hkv).
          unfold state_of_result. destruct (s_out (snd (s_member (spfields_of cfs) d l kv))) eqn:Eo; [discriminate|].
          exfalso. destruct (fst (s_member (spfields_of cfs) d l kv)) as [i|] eqn:Ei; [|contradiction].
          apply (member_wf cfs d l kv i Hch Ei Eo).
          apply (member_faults_nil_in members); [exact Hmem|]. unfold members. apply in_map_iff. exists kv. split; [reflexivity|exact Hkv].
        - intros st0 Hin0. unfold sts0 in Hin0. apply in_map_iff in Hin0. destruct Hin0 as (f & <- & _).
          destruct (rf_default f); discriminate. }
      destruct st as [| |o]; [contradiction|contradiction|exists o; reflexivity]. }
    destruct (items_correspond cfs sts vals HF Hlen Hall) as (v3 & Hi1 & Hi2).
    rewrite Hi1, Hi2.
    set (sk3 := map (fun s0 : sfield => (sf_name s0, sf_default s0, sf_map s0)) sk).
    assert (Hs1 : map (fun s0 : sfield => (sf_name s0, FSome (sf_default s0), sf_map s0)) sk = map toF sk3)
      by (unfold sk3; rewrite map_map; reflexivity).
    assert (Hs2 : map (fun s0 : sfield => (sf_name s0, Some (sf_default s0), sf_map s0)) sk = map toS sk3)
      by (unfold sk3; rewrite map_map; reflexivity).
    rewrite Hs1, Hs2, <- !map_app. fold (spec_outs (map toS (v3 ++ sk3))).
    destruct (spec_outs_values (v3 ++ sk3)) as (Ho1 & Ho2 & Ho3). rewrite Ho1, Ho2, Ho3. cbn [option_map]. rewrite combine_fst_snd.
    rewrite run_bind. unfold toF. rewrite construct_ok. cbn [run rev app].
    exists (ROk (mk (map built_field (v3 ++ sk3)))), (ext1 ++ ext2 ++ flat_map built_calls (v3 ++ sk3)).
    split; [rewrite <- !app_assoc; reflexivity|].
    rewrite !trace_faults_app, !trace_ucalls_app, Hf1, Hf2, Hu1, Hu2, trace_faults_built.
    cbn [s_faults s_ucalls s_out res_matches option_map app]. rewrite !app_nil_r. repeat split.
Qed.

(** the [validate] tail of every derived impl *)
Lemma ref_validate_tail a val l p sr :
  Ref p sr -> Ref (and_then p (validate a val l)) (s_validate val l sr).
Proof.
  intros Hp s. destruct (Hp s) as (r & ext & Hrun & Hf & Hu & Hm).
  unfold and_then. rewrite run_bind, Hrun. destruct r as [o|e|site]; [| |destruct Hm].
  - destruct Hm as [Ho Hnil]. unfold validate, s_validate. rewrite Ho. destruct val as [fn|].
    + rewrite run_user_call. destruct (ufail o).
      * eexists _, (ext ++ [_; _]). cbn [run]. rewrite <- !app_assoc. split; [reflexivity|].
        rewrite trace_faults_app, trace_ucalls_app, Hf, Hu, Hnil. cbn. repeat split. discriminate.
      * eexists _, (ext ++ [_]). cbn [run]. rewrite <- !app_assoc. split; [reflexivity|].
        rewrite trace_faults_app, trace_ucalls_app, Hf, Hu, Hnil. cbn. repeat split.
    + exists (ROk o), ext. cbn [run]. repeat split; assumption.
  - destruct Hm as [Ho Hne]. exists (RErr e), ext. cbn [run]. unfold s_validate. rewrite Ho.
    destruct val; repeat split; assumption.
Qed.

(** *** enums *)
Definition spvariant_of (cv : cvariant ty) : spvariant :=
  mkSV (cv_ident cv) (cv_key cv)
       (match cv_data cv with
        | VDUnit => None
        | VDNamed s => Some (spfields_of (cs_fields s), cs_skipped s, cs_deny s)
        end).
Definition rvariant_of (cv : cvariant ty) : rvariant :=
  mkRV (cv_ident cv) (cv_key cv)
       (match cv_data cv with
        | VDUnit => None
        | VDNamed s => Some (rfields_of (cs_fields s), cs_skipped s, cs_deny s)
        end).

Definition variant_ref (cv : cvariant ty) : Prop :=
  match cv_data cv with VDUnit => True | VDNamed s => Forall child_ref (cs_fields s) end.

Lemma find_variant_correspond vs s :
  match find_variant (map rvariant_of vs) s, find (fun sv => String.eqb (sv_key sv) s) (map spvariant_of vs) with
  | Some rv, Some sv => exists cv, In cv vs /\ rv = rvariant_of cv /\ sv = spvariant_of cv
  | None, None => True
  | _, _ => False
  end.
Proof.
  induction vs as [|cv vs IH]; cbn [map find_variant find]; [exact I|].
  cbn [rvariant_of rv_key spvariant_of sv_key]. destruct (String.eqb (cv_key cv) s).
  - exists cv. split; [left; reflexivity|split; reflexivity].
  - destruct (find_variant (map rvariant_of vs) s), (find (fun sv => String.eqb (sv_key sv) s) (map spvariant_of vs));
      try exact IH. destruct IH as (cv' & Hin & H1 & H2). exists cv'. split; [right; exact Hin|split; assumption].
Qed.

Lemma run_tagged_ref a tag vs v l :
  Forall variant_ref vs ->
  Ref (run_tagged a tag (map rvariant_of vs) v l) (s_tagged tag (map spvariant_of vs) v l).
Proof.
  intros Hvs. unfold run_tagged, s_tagged. destruct v; try apply ref_fail_kind.
  destruct (remove_first tag l0) as [[tv rest]|]; [|apply ref_fail_kind].
  destruct tv; try apply ref_fail_kind.
  pose proof (find_variant_correspond vs s) as Hc.
  destruct (find_variant (map rvariant_of vs) s) as [rv|], (find (fun sv => String.eqb (sv_key sv) s) (map spvariant_of vs)) as [sv|];
    try contradiction; [|apply ref_fail_kind].
  destruct Hc as (cv & Hin & -> & ->). rewrite Forall_forall in Hvs. pose proof (Hvs cv Hin) as Hcv.
  unfold variant_ref in Hcv. unfold rvariant_of, spvariant_of. cbn [rv_data sv_data rv_ident sv_ident].
  destruct (cv_data cv) as [|cs]; [apply ref_ret_ok|]. apply run_fields_ref. exact Hcv.
Qed.

Lemma find_unit_correspond vs s :
  find_unit vs s = option_map fst (find (fun p : string * string => String.eqb (snd p) s) vs).
Proof.
  induction vs as [|[ident key] vs IH]; [reflexivity|]. cbn [find_unit find snd].
  destruct (String.eqb key s); [reflexivity|exact IH].
Qed.

Lemma run_unit_enum_ref a vs v l : Ref (run_unit_enum a vs v l) (s_unit_enum vs v l).
Proof.
  unfold run_unit_enum, s_unit_enum. destruct v; try apply ref_fail_kind.
  rewrite find_unit_correspond. destruct (find (fun p : string * string => String.eqb (snd p) s) vs) as [[ident key]|];
    cbn [option_map fst]; [apply ref_ret_ok|apply ref_fail_kind].
Qed.

(** *** serde_json::Value as a target *)
Lemma ref_deser_json a : forall v l, Ref (deser_json a v l) (s_json v l).
Proof.
  fix IH 1. intros v l. destruct v as [| b | x | x | f | s | vs | ms]; cbn [deser_json s_json];
    try apply ref_ret_ok.
  - destruct (float_is_finite f); [apply ref_ret_ok|apply ref_fail_kind].
  - (* sequences *)
    set (gom := fix go (vs : list value) (idx : N) (acc : option N) (outs_rev : list value) {struct vs} : prog res :=
                  match vs with
                  | [] => Ret (match acc with Some e => RErr e | None => ROk (OJson (VSeq (rev outs_rev))) end)
                  | x :: vs' =>
                    bind (deser_json a x (Index idx l)) (fun r =>
                      match r with
                      | ROk o => go vs' (N.succ idx) acc (unjson o :: outs_rev)
                      | RErr e =>
                        absorb a acc a e (Index idx l)
                               (fun acc' => go vs' (N.succ idx) acc' outs_rev) (fun i => Ret (RErr i))
                      | RPanic s => Ret (RPanic s)
                      end)
                  end).
    set (gos := fix go (vs : list value) (i : N) {struct vs} : list sres :=
                  match vs with
                  | [] => []
                  | x :: r => s_json x (Index i l) :: go r (N.succ i)
                  end).
    assert (Hloop : forall vs idx acc outs_rev s, exists r ext,
               run keep_going (gom vs idx acc outs_rev) s = (r, s ++ ext)
               /\ trace_faults ext = flat_map s_faults (gos vs idx)
               /\ trace_ucalls ext = flat_map s_ucalls (gos vs idx)
               /\ loop_result acc (gos vs idx) r (fun outs => ROk (OJson (VSeq (rev outs_rev ++ map unjson outs))))).
    { clear vs. induction vs as [|x vs IHvs]; intros idx acc outs_rev s.
      - exists (match acc with Some e => RErr e | None => ROk (OJson (VSeq (rev outs_rev))) end), [].
        cbn [gom gos run flat_map]. rewrite app_nil_r. repeat split.
        unfold loop_result. cbn [flat_map]. destruct acc as [e|]; [exists e; reflexivity|].
        exists []. cbn. rewrite app_nil_r. split; reflexivity.
      - cbn [gom gos flat_map]. fold gom. fold gos. rewrite run_bind.
        destruct (IH x (Index idx l) s) as (rc & ext1 & Hrun1 & Hf1 & Hu1 & Hm1). rewrite Hrun1.
        destruct rc as [o|e|site]; [| |destruct Hm1].
        + destruct Hm1 as [Ho Hnil].
          destruct (IHvs (N.succ idx) acc (unjson o :: outs_rev) (s ++ ext1)) as (r & ext2 & Hrun2 & Hf2 & Hu2 & Hres).
          exists r, (ext1 ++ ext2). rewrite Hrun2, app_assoc. split; [reflexivity|].
          rewrite trace_faults_app, trace_ucalls_app, Hf1, Hf2, Hu1, Hu2, Hnil. repeat split.
          unfold loop_result in *. cbn [flat_map map]. rewrite Hnil, Ho. cbn [app].
          destruct acc as [e|]; [exact Hres|].
          destruct (flat_map s_faults (gos vs (N.succ idx))); [|exact Hres].
          destruct Hres as (outs & Hall & Hr). exists (o :: outs). cbn [all_some]. rewrite Hall. split; [reflexivity|].
          rewrite Hr. cbn [rev map]. rewrite <- app_assoc. reflexivity.
        + destruct Hm1 as [Ho Hne]. cbn [absorb run]. cbn beta.
          destruct (IHvs (N.succ idx) (Some (N.of_nat (List.length (s ++ ext1)))) outs_rev
                         ((s ++ ext1) ++ [CMerge a acc a e (Index idx l)])) as (r & ext2 & Hrun2 & Hf2 & Hu2 & Hres).
          exists r, (ext1 ++ CMerge a acc a e (Index idx l) :: ext2).
          rewrite Hrun2. split; [rewrite <- !app_assoc; reflexivity|].
          rewrite trace_faults_app, trace_ucalls_app. cbn [trace_faults trace_ucalls flat_map app].
          fold (trace_faults ext2). fold (trace_ucalls ext2). rewrite Hf1, Hf2, Hu1, Hu2. repeat split.
          unfold loop_result in *. destruct Hres as [e' He'].
          destruct acc; [exists e'; exact He'|].
          cbn [flat_map]. destruct (s_faults (s_json x (Index idx l))) eqn:Ef; [contradiction|]. cbn [app]. exists e'. exact He'. }
    intros s. destruct (Hloop vs 0%N None [] s) as (r & ext & Hrun & Hf & Hu & Hres).
    exists r, ext. unfold s_collect. cbn [s_faults s_ucalls s_out]. repeat split; try assumption.
    unfold loop_result in Hres. destruct (flat_map s_faults (gos vs 0%N)) eqn:Ef.
    + destruct Hres as (outs & Hall & ->). cbn [res_matches rev app s_out s_faults]. rewrite Hall. split; reflexivity.
    + destruct Hres as [e ->]. cbn [res_matches s_out s_faults]. split; [reflexivity|discriminate].
  - (* objects *)
    set (gom := fix go (ms : list (string * value)) (acc : option N) (jm : list (string * value)) {struct ms} : prog res :=
                  match ms with
                  | [] => Ret (match acc with Some e => RErr e | None => ROk (OJson (VMap jm)) end)
                  | (k, x) :: ms' =>
                    bind (deser_json a x (Key k l)) (fun r =>
                      match r with
                      | ROk o => go ms' acc (jmap_insert k (unjson o) jm)
                      | RErr e =>
                        absorb a acc a e (Key k l) (fun acc' => go ms' acc' jm) (fun i => Ret (RErr i))
                      | RPanic s => Ret (RPanic s)
                      end)
                  end).
    set (gos := fix go (ms : list (string * value)) {struct ms} : list sres :=
                  match ms with
                  | [] => []
                  | (k, x) :: r => s_json x (Key k l) :: go r
                  end).
    set (ins := fun (m : list (string * value)) (ko : string * out) => jmap_insert (fst ko) (unjson (snd ko)) m).
    assert (Hloop : forall ms acc jm s, exists r ext,
               run keep_going (gom ms acc jm) s = (r, s ++ ext)
               /\ trace_faults ext = flat_map s_faults (gos ms)
               /\ trace_ucalls ext = flat_map s_ucalls (gos ms)
               /\ loop_result acc (gos ms) r (fun outs => ROk (OJson (VMap (fold_left ins (combine (map fst ms) outs) jm))))).
    { clear ms. induction ms as [|[k x] ms IHms]; intros acc jm s.
      - exists (match acc with Some e => RErr e | None => ROk (OJson (VMap jm)) end), [].
        cbn [gom gos run flat_map]. rewrite app_nil_r. repeat split.
        unfold loop_result. cbn [flat_map]. destruct acc as [e|]; [exists e; reflexivity|].
        exists []. cbn. split; reflexivity.
      - cbn [gom gos flat_map]. fold gom. fold gos. rewrite run_bind.
        destruct (IH x (Key k l) s) as (rc & ext1 & Hrun1 & Hf1 & Hu1 & Hm1). rewrite Hrun1.
        destruct rc as [o|e|site]; [| |destruct Hm1].
        + destruct Hm1 as [Ho Hnil].
          destruct (IHms acc (jmap_insert k (unjson o) jm) (s ++ ext1)) as (r & ext2 & Hrun2 & Hf2 & Hu2 & Hres).
          exists r, (ext1 ++ ext2). rewrite Hrun2, app_assoc. split; [reflexivity|].
          rewrite trace_faults_app, trace_ucalls_app, Hf1, Hf2, Hu1, Hu2, Hnil. repeat split.
          unfold loop_result in *. cbn [flat_map map]. rewrite Hnil, Ho. cbn [app].
          destruct acc as [e|]; [exact Hres|].
          destruct (flat_map s_faults (gos ms)); [|exact Hres].
          destruct Hres as (outs & Hall & Hr). exists (o :: outs). cbn [all_some]. rewrite Hall. split; [reflexivity|].
          rewrite Hr. reflexivity.
        + destruct Hm1 as [Ho Hne]. cbn [absorb run]. cbn beta.
          destruct (IHms (Some (N.of_nat (List.length (s ++ ext1)))) jm
                         ((s ++ ext1) ++ [CMerge a acc a e (Key k l)])) as (r & ext2 & Hrun2 & Hf2 & Hu2 & Hres).
          exists r, (ext1 ++ CMerge a acc a e (Key k l) :: ext2).
          rewrite Hrun2. split; [rewrite <- !app_assoc; reflexivity|].
          rewrite trace_faults_app, trace_ucalls_app. cbn [trace_faults trace_ucalls flat_map app].
          fold (trace_faults ext2). fold (trace_ucalls ext2). rewrite Hf1, Hf2, Hu1, Hu2. repeat split.
          unfold loop_result in *. destruct Hres as [e' He'].
          destruct acc; [exists e'; exact He'|].
          cbn [flat_map]. destruct (s_faults (s_json x (Key k l))) eqn:Ef; [contradiction|]. cbn [app]. exists e'. exact He'. }
    intros s. destruct (Hloop ms None [] s) as (r & ext & Hrun & Hf & Hu & Hres).
    exists r, ext. unfold s_collect. cbn [s_faults s_ucalls s_out]. repeat split; try assumption.
    unfold loop_result in Hres. destruct (flat_map s_faults (gos ms)) eqn:Ef.
    + destruct Hres as (outs & Hall & ->). cbn [res_matches s_out s_faults]. rewrite Hall. split; reflexivity.
    + destruct Hres as [e ->]. cbn [res_matches s_out s_faults]. split; [reflexivity|discriminate].
Qed.

(** *** the main theorem *)
Lemma loop_result_collect acc0 ch r mk :
  acc0 = None -> loop_result acc0 ch r (fun outs => ROk (mk outs)) -> res_matches r (s_collect ch mk).
Proof.
  intros -> Hres. unfold loop_result in Hres. unfold s_collect. cbn [s_out s_faults].
  destruct (flat_map s_faults ch) eqn:Ef.
  - destruct Hres as (outs & Hall & ->). cbn [res_matches s_out s_faults]. rewrite Hall. split; reflexivity.
  - destruct Hres as [e ->]. cbn [res_matches s_out s_faults]. split; [reflexivity|discriminate].
Qed.

Theorem deser_refines_spec : forall t a v l, Ref (deser t a v l) (spec t v l).
Proof.
  induction t using ty_ind'; intros a0 v l; cbn [deser spec].
  - apply ref_deser_unit.
  - apply ref_deser_bool.
  - apply ref_deser_int.
  - apply ref_deser_f32.
  - apply ref_deser_f64.
  - apply ref_deser_char.
  - apply ref_deser_string.
  - apply ref_ret_ok.
  - apply ref_deser_json.
  - (* Vec *) destruct v; try apply ref_fail_kind. apply ref_seq_like. intros v l'. apply IHt.
  - (* [T; N] *)
    destruct v as [| | | | | |vs|]; try apply ref_fail_kind.
    destruct (N.eqb (N.of_nat (List.length vs)) n) eqn:En; cbn [negb]; [|apply ref_fail_kind].
    intros s.
    destruct (seq_loop_ref (deser t a0) (spec t) a0 l
                (fun os => if N.eqb (N.of_nat (List.length os)) n then ROk (OList os)
                           else RPanic "Could not convert Vec<T> into [T; N]")
                (fun v l' => IHt a0 v l') vs 0%N None [] s) as (r & ext & Hrun & Hf & Hu & Hres).
    exists r, ext. unfold s_seq, s_collect. cbn [s_faults s_ucalls s_out]. repeat split; try assumption.
    cbv zeta in Hres. unfold loop_result in Hres.
    destruct (flat_map s_faults (map (fun iv => spec t (snd iv) (Index (fst iv) l)) (indexed vs 0%N))) eqn:Ef.
    + destruct Hres as (outs & Hall & ->). cbn [rev app].
      pose proof (all_some_length _ _ Hall) as Hlen. rewrite !map_length, indexed_length in Hlen.
      rewrite Hlen, En. cbn [res_matches s_out s_faults]. rewrite Hall. split; reflexivity.
    + destruct Hres as [e ->]. cbn [res_matches s_out s_faults]. split; [reflexivity|discriminate].
  - (* 2-tuples *)
    destruct v as [| | | | | |vs|]; try apply ref_fail_kind.
    destruct vs as [|x [|y [|z r]]]; try apply ref_fail_kind.
    intros s.
    destruct (tuple_loop_ref a0 l [(deser t1 a0, x); (deser t2 a0, y)]
                [spec t1 x (Index 0 l); spec t2 y (Index 1 l)] 0%N None [] s) as (r & ext & Hrun & Hf & Hu & Hres).
    { repeat constructor; cbn [fst snd]; [apply IHt1|apply IHt2]. }
    exists r, ext. cbn [map] in Hrun. repeat split; try assumption.
    apply (loop_result_collect None); [reflexivity|exact Hres].
  - (* 3-tuples *)
    destruct v as [| | | | | |vs|]; try apply ref_fail_kind.
    destruct vs as [|x [|y [|z [|w r]]]]; try apply ref_fail_kind.
    intros s.
    destruct (tuple_loop_ref a0 l [(deser t1 a0, x); (deser t2 a0, y); (deser t3 a0, z)]
                [spec t1 x (Index 0 l); spec t2 y (Index 1 l); spec t3 z (Index 2 l)] 0%N None [] s)
      as (r & ext & Hrun & Hf & Hu & Hres).
    { repeat constructor; cbn [fst snd]; [apply IHt1|apply IHt2|apply IHt3]. }
    exists r, ext. cbn [map] in Hrun. repeat split; try assumption.
    apply (loop_result_collect None); [reflexivity|exact Hres].
  - (* HashSet *) destruct v; try apply ref_fail_kind.
    apply (ref_seq_like (deser t a0) (spec t) a0 l (fun os => OSet (dedup_outs os []))). intros v l'. apply IHt.
  - (* BTreeSet *) destruct v; try apply ref_fail_kind.
    apply (ref_seq_like (deser t a0) (spec t) a0 l (fun os => OSet (dedup_outs os []))). intros v l'. apply IHt.
  - (* maps *)
    destruct v as [| | | | | | |ms]; try apply ref_fail_kind.
    intros s. destruct (map_loop_ref (deser t a0) (spec t) kp n a0 l (fun v l' => IHt a0 v l') ms None [] s)
      as (r & ext & Hrun & Hf & Hu & Hres). cbv zeta in Hf, Hu, Hres.
    exists r, ext. unfold s_map. cbn [s_faults s_ucalls s_out].
    change (map (fun kv : string * value =>
                   match parse_key kp (fst kv) with
                   | inl ko => (Some ko, spec t (snd kv) (Key (fst kv) l))
                   | inr _ => (None, s_fault (FKind (Unexpected (key_msg (fst kv) n)) l))
                   end) ms) with (map (map_member_spec (spec t) kp n l) ms).
    repeat split; try assumption.
    destruct (flat_map (fun p => s_faults (snd p)) (map (map_member_spec (spec t) kp n l) ms)) eqn:Ef.
    + destruct Hres as (m & Hm & ->). unfold map_fold in Hm. cbn [res_matches s_out s_faults]. rewrite Hm. split; reflexivity.
    + destruct Hres as [e ->]. cbn [res_matches s_out s_faults]. split; [reflexivity|discriminate].
  - (* Option *) destruct v; try apply ref_ret_ok; apply ref_map_ok; apply IHt.
  - (* Box *) apply IHt.
  - (* comma-separated *)
    destruct v; try apply ref_fail_kind. unfold deser_cs.
    destruct (parse_cs ep s); [apply ref_ret_ok|apply ref_fail_kind].
  - (* structs *)
    apply ref_validate_tail. destruct v as [| | | | | | |ms]; try apply ref_fail_kind.
    apply (run_fields_ref a0 (cs_fields s) (cs_skipped s) (cs_deny s) OStruct ms l).
    unfold Pfields in H. rewrite Forall_forall in *. intros cf Hin a1 v1 l1. apply (H cf Hin).
  - (* internally tagged enums *)
    apply ref_validate_tail.
    apply (run_tagged_ref a0 tag vs v l).
    rewrite Forall_forall in *. intros cv Hin. pose proof (H cv Hin) as Hcv. unfold Pvariant, Pfields in Hcv.
    unfold variant_ref. destruct (cv_data cv) as [|cs]; [exact I|].
    rewrite Forall_forall in *. intros cf Hcf a1 v1 l1. apply (Hcv cf Hcf).
  - (* unit enums *) apply ref_validate_tail. apply run_unit_enum_ref.
  - (* from *)
    intros s. destruct (IHt a0 v l s) as (r & ext & Hrun & Hf & Hu & Hm).
    unfold and_then. rewrite run_bind, Hrun. destruct r as [o|e|site]; [| |destruct Hm].
    + destruct Hm as [Ho Hnil]. rewrite Ho. rewrite run_user_call.
      destruct (ref_validate a0 val l (OFn fn o) (s_ucalls (spec t v l) ++ [(fn, [AOut o])]) ((s ++ ext) ++ [CUser fn [AOut o]]))
        as (r2 & ext2 & Hrun2 & Hf2 & Hu2 & Hm2).
      exists r2, (ext ++ CUser fn [AOut o] :: ext2). rewrite Hrun2. split; [rewrite <- !app_assoc; reflexivity|].
      rewrite trace_faults_app, trace_ucalls_app. cbn [trace_faults trace_ucalls flat_map app].
      fold (trace_faults ext2). fold (trace_ucalls ext2). rewrite Hf, Hnil, Hu, <- Hu2, Hf2, <- !app_assoc.
      repeat split. exact Hm2.
    + destruct Hm as [Ho Hne]. rewrite Ho. exists (RErr e), ext. cbn [run]. repeat split; assumption.
  - (* try_from *)
    intros s. destruct (IHt a0 v l s) as (r & ext & Hrun & Hf & Hu & Hm).
    unfold and_then. rewrite run_bind, Hrun. destruct r as [o|e|site]; [| |destruct Hm].
    + destruct Hm as [Ho Hnil]. rewrite Ho. rewrite run_user_call. destruct (ufail o).
      * eexists _, (ext ++ [_; _]). cbn [run]. split; [rewrite <- !app_assoc; reflexivity|].
        rewrite trace_faults_app, trace_ucalls_app, Hf, Hnil, Hu. cbn. repeat split. discriminate.
      * destruct (ref_validate a0 val l (OFn fn o) (s_ucalls (spec t v l) ++ [(fn, [AOut o])]) ((s ++ ext) ++ [CUser fn [AOut o]]))
          as (r2 & ext2 & Hrun2 & Hf2 & Hu2 & Hm2).
        exists r2, (ext ++ CUser fn [AOut o] :: ext2). rewrite Hrun2. split; [rewrite <- !app_assoc; reflexivity|].
        rewrite trace_faults_app, trace_ucalls_app. cbn [trace_faults trace_ucalls flat_map app].
        fold (trace_faults ext2). fold (trace_ucalls ext2). rewrite Hf, Hnil, Hu, <- Hu2, Hf2, <- !app_assoc.
        repeat split. exact Hm2.
    + destruct Hm as [Ho Hne]. rewrite Ho. exists (RErr e), ext. cbn [run]. repeat split; assumption.
Qed.
