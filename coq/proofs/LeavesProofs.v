(** Two generic invariants of call trees: a property of every possible outcome ([Leaves]) and a
    property of every call that can be made ([Calls]); both hold of every run. *)
From Deserr Require Import Base Pointer Kinds Value Prog Monitors.
From Deserr.proofs Require Import ProgProofs.

(** [Leaves ok p]: every possible outcome of [p] satisfies [ok]; moreover a call that is not made
    to the error type (a user-function invocation) has no answer: what follows does not depend
    on the scripted answer or on the position of that call. *)
Inductive Leaves {X} (ok : X -> Prop) : prog X -> Prop :=
| Leaves_ret x : ok x -> Leaves ok (Ret x)
| Leaves_op c k :
    (creates c = false -> forall i a i' a', k i a = k i' a') ->
    (forall i ans, Leaves ok (k i ans)) -> Leaves ok (Op c k).

(** for calls to the error type the first premise is vacuous *)
Lemma Leaves_call {X} (ok : X -> Prop) c k :
  creates c = true -> (forall i ans, Leaves ok (k i ans)) -> Leaves ok (Op c k).
Proof. intros Hc Hk. constructor; [rewrite Hc; discriminate|exact Hk]. Qed.

Lemma leaves_sound {X} (ok : X -> Prop) (p : prog X) :
  Leaves ok p -> forall script s, ok (fst (run script p s)).
Proof. induction 1 as [x Hx | c k Hu Hk IH]; intros script s; cbn [run]; [exact Hx|apply IH]. Qed.

Lemma leaves_bind {X Y} (okp : X -> Prop) (ok : Y -> Prop) (p : prog X) (f : X -> prog Y) :
  Leaves okp p -> (forall x, okp x -> Leaves ok (f x)) -> Leaves ok (bind p f).
Proof.
  intros Hp Hf. induction Hp as [x Hx | c k Hu Hk IH]; cbn [bind]; [apply Hf; exact Hx|].
  constructor; [|intros i ans; apply IH].
  intros Hc i a i' a'. rewrite (Hu Hc i a i' a'). reflexivity.
Qed.

Lemma leaves_weaken {X} (ok1 ok2 : X -> Prop) (p : prog X) :
  (forall x, ok1 x -> ok2 x) -> Leaves ok1 p -> Leaves ok2 p.
Proof.
  intros Hw. induction 1 as [x Hx | c k Hu Hk IH]; constructor; [apply Hw; exact Hx|exact Hu|exact IH].
Qed.

Lemma leaves_user {X} (ok : X -> Prop) fn args (k : prog X) :
  Leaves ok k -> Leaves ok (user_call fn args k).
Proof. intros H. constructor; [reflexivity|]. intros _ _. exact H. Qed.

(** ** the first call to the error type does not depend on the answers *)

(** the first call made to the error type from position [i] on, with its position *)
Fixpoint first_created (tr : list call) (i : N) : option (N * call) :=
  match tr with
  | [] => None
  | c :: r => if creates c then Some (i, c) else first_created r (N.succ i)
  end.

Lemma first_created_app tr1 tr2 i :
  first_created (tr1 ++ tr2) i =
  match first_created tr1 i with
  | Some x => Some x
  | None => first_created tr2 (i + N.of_nat (List.length tr1))
  end.
Proof.
  revert i. induction tr1 as [|c tr1 IH]; intros i; cbn [app first_created List.length].
  - rewrite N.add_0_r. reflexivity.
  - destruct (creates c); [reflexivity|]. rewrite IH.
    replace (N.succ i + N.of_nat (List.length tr1))%N with (i + N.of_nat (S (List.length tr1)))%N by lia.
    reflexivity.
Qed.

(** what a run appends to the trace *)
Definition ext_of {X} script (p : prog X) (s : list call) : list call :=
  skipn (List.length s) (snd (run script p s)).

Lemma skipn_exact {A} (l r : list A) : skipn (List.length l) (l ++ r) = r.
Proof. induction l as [|x l IH]; [reflexivity|exact IH]. Qed.

Lemma ext_of_op {X} script c (k : N -> bool -> prog X) s :
  ext_of script (Op c k) s =
  c :: ext_of script (k (N.of_nat (List.length s)) (script (N.of_nat (List.length s)))) (s ++ [c]).
Proof.
  unfold ext_of. cbn [run].
  destruct (run_extends script (k (N.of_nat (List.length s)) (script (N.of_nat (List.length s)))) (s ++ [c])) as [e He].
  rewrite He. rewrite skipn_exact. rewrite <- app_assoc. rewrite skipn_exact. reflexivity.
Qed.

Theorem first_report_script_independent {X} (ok : X -> Prop) (p : prog X) :
  Leaves ok p ->
  forall sc1 sc2 s,
    first_created (ext_of sc1 p s) (N.of_nat (List.length s))
    = first_created (ext_of sc2 p s) (N.of_nat (List.length s)).
Proof.
  induction 1 as [x Hx | c k Hu Hk IH]; intros sc1 sc2 s.
  - reflexivity.
  - rewrite !ext_of_op. cbn [first_created]. destruct (creates c) eqn:Ec; [reflexivity|].
    set (i := N.of_nat (List.length s)).
    rewrite (Hu eq_refl i (sc2 i) i (sc1 i)).
    replace (N.succ i) with (N.of_nat (List.length (s ++ [c]))) by (rewrite app_length; cbn; unfold i; lia).
    apply IH.
Qed.

Lemma first_created_find tr i : option_map snd (first_created tr i) = find creates tr.
Proof.
  revert i. induction tr as [|c tr IH]; intros i; cbn [first_created find]; [reflexivity|].
  destruct (creates c); [reflexivity|apply IH].
Qed.

Lemma first_created_none tr i : first_created tr i = None <-> existsb creates tr = false.
Proof.
  revert i. induction tr as [|c tr IH]; intros i; cbn [first_created existsb]; [tauto|].
  destruct (creates c); cbn [orb]; [split; discriminate|apply IH].
Qed.

(** a run that never calls the error type is the same run under every script *)
Theorem silent_run_script_independent {X} (ok : X -> Prop) (p : prog X) :
  Leaves ok p ->
  forall sc1 sc2 s,
    existsb creates (ext_of sc1 p s) = false -> run sc1 p s = run sc2 p s.
Proof.
  induction 1 as [x Hx | c k Hu Hk IH]; intros sc1 sc2 s Hsil; [reflexivity|].
  rewrite ext_of_op in Hsil. cbn [existsb] in Hsil. apply Bool.orb_false_iff in Hsil.
  destruct Hsil as [Hc Hrest]. cbn [run].
  set (i := N.of_nat (List.length s)) in *.
  rewrite (Hu Hc i (sc2 i) i (sc1 i)). apply IH. exact Hrest.
Qed.

Lemma run_ext_of {X} script (p : prog X) s : snd (run script p s) = s ++ ext_of script p s.
Proof.
  unfold ext_of. destruct (run_extends script p s) as [e He]. rewrite He, skipn_exact. reflexivity.
Qed.

(** every call that the program can make satisfies [P] *)
Inductive Calls {X} (P : call -> Prop) : prog X -> Prop :=
| Calls_ret x : Calls P (Ret x)
| Calls_op c k : P c -> (forall i ans, Calls P (k i ans)) -> Calls P (Op c k).

Lemma calls_sound {X} (P : call -> Prop) (p : prog X) :
  Calls P p -> forall script s, Forall P s -> Forall P (snd (run script p s)).
Proof.
  induction 1 as [x | c k Hc Hk IH]; intros script s Hs; cbn [run]; [exact Hs|].
  apply IH. apply Forall_app. split; [exact Hs|constructor; [exact Hc|constructor]].
Qed.

Lemma calls_bind {X Y} (P : call -> Prop) (p : prog X) (f : X -> prog Y) :
  Calls P p -> (forall x, Calls P (f x)) -> Calls P (bind p f).
Proof.
  intros Hp Hf. induction Hp as [x | c k Hc Hk IH]; cbn [bind]; [apply Hf|].
  constructor; [exact Hc|]. intros i ans. apply IH.
Qed.

(** both at once: the continuation only needs to be good for outcomes that can really occur *)
Inductive Tree {X} (P : call -> Prop) (ok : X -> Prop) : prog X -> Prop :=
| Tree_ret x : ok x -> Tree P ok (Ret x)
| Tree_op c k : P c -> (forall i ans, Tree P ok (k i ans)) -> Tree P ok (Op c k).

Lemma tree_bind {X Y} (P : call -> Prop) (okp : X -> Prop) (ok : Y -> Prop) (p : prog X) (f : X -> prog Y) :
  Tree P okp p -> (forall x, okp x -> Tree P ok (f x)) -> Tree P ok (bind p f).
Proof.
  intros Hp Hf. induction Hp as [x Hx | c k Hc Hk IH]; cbn [bind]; [apply Hf; exact Hx|].
  constructor; [exact Hc|]. intros i ans. apply IH.
Qed.

Lemma tree_sound {X} (P : call -> Prop) (ok : X -> Prop) (p : prog X) :
  Tree P ok p -> forall script s, Forall P s ->
  ok (fst (run script p s)) /\ Forall P (snd (run script p s)).
Proof.
  induction 1 as [x Hx | c k Hc Hk IH]; intros script s Hs; cbn [run]; [split; assumption|].
  apply IH. apply Forall_app. split; [exact Hs|constructor; [exact Hc|constructor]].
Qed.

Lemma tree_weaken {X} (P : call -> Prop) (ok1 ok2 : X -> Prop) (p : prog X) :
  (forall x, ok1 x -> ok2 x) -> Tree P ok1 p -> Tree P ok2 p.
Proof.
  intros Hw. induction 1 as [x Hx | c k Hc Hk IH]; constructor; auto.
Qed.
