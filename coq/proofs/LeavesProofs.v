(** Two generic invariants of call trees: a property of every possible outcome ([Leaves]) and a
    property of every call that can be made ([Calls]); both hold of every run. *)
From Deserr Require Import Base Pointer Kinds Value Prog.
From Deserr.proofs Require Import ProgProofs.

Inductive Leaves {X} (ok : X -> Prop) : prog X -> Prop :=
| Leaves_ret x : ok x -> Leaves ok (Ret x)
| Leaves_op c k : (forall i ans, Leaves ok (k i ans)) -> Leaves ok (Op c k).

Lemma leaves_sound {X} (ok : X -> Prop) (p : prog X) :
  Leaves ok p -> forall script s, ok (fst (run script p s)).
Proof. induction 1 as [x Hx | c k Hk IH]; intros script s; cbn [run]; [exact Hx|apply IH]. Qed.

Lemma leaves_bind {X Y} (okp : X -> Prop) (ok : Y -> Prop) (p : prog X) (f : X -> prog Y) :
  Leaves okp p -> (forall x, okp x -> Leaves ok (f x)) -> Leaves ok (bind p f).
Proof.
  intros Hp Hf. induction Hp as [x Hx | c k Hk IH]; cbn [bind]; [apply Hf; exact Hx|].
  constructor. intros i ans. apply IH.
Qed.

Lemma leaves_weaken {X} (ok1 ok2 : X -> Prop) (p : prog X) :
  (forall x, ok1 x -> ok2 x) -> Leaves ok1 p -> Leaves ok2 p.
Proof.
  intros Hw. induction 1 as [x Hx | c k Hk IH]; constructor; [apply Hw; exact Hx|exact IH].
Qed.

Lemma leaves_user {X} (ok : X -> Prop) fn args (k : prog X) :
  Leaves ok k -> Leaves ok (user_call fn args k).
Proof. intros H. constructor. intros _ _. exact H. Qed.

(** every call that the program can make satisfies [P] *)
Inductive Calls {X} (P : call -> Prop) : prog X -> Prop :=
| Calls_ret x : Calls P (Ret x)
| Calls_op c k : P c -> (forall i ans, Calls P (k i ans)) -> Calls P (Op c k).

Lemma calls_sound {X} (P : call -> Prop) (p : prog X) :
  Calls P p -> forall script s, Forall P s -> Forall P (snd (run script p s)).
Proof.
  induction 1 as [x | c k Hc Hk IH]; intros script s Hs; cbn [run]; [exact Hs|].
  apply IH. apply Forall_app. split; [exact Hs|constructor; [exact Hc|constructor]].
Qed.

Lemma calls_bind {X Y} (P : call -> Prop) (p : prog X) (f : X -> prog Y) :
  Calls P p -> (forall x, Calls P (f x)) -> Calls P (bind p f).
Proof.
  intros Hp Hf. induction Hp as [x | c k Hc Hk IH]; cbn [bind]; [apply Hf|].
  constructor; [exact Hc|]. intros i ans. apply IH.
Qed.

(** both at once: the continuation only needs to be good for outcomes that can really occur *)
Inductive Tree {X} (P : call -> Prop) (ok : X -> Prop) : prog X -> Prop :=
| Tree_ret x : ok x -> Tree P ok (Ret x)
| Tree_op c k : P c -> (forall i ans, Tree P ok (k i ans)) -> Tree P ok (Op c k).

Lemma tree_bind {X Y} (P : call -> Prop) (okp : X -> Prop) (ok : Y -> Prop) (p : prog X) (f : X -> prog Y) :
  Tree P okp p -> (forall x, okp x -> Tree P ok (f x)) -> Tree P ok (bind p f).
Proof.
  intros Hp Hf. induction Hp as [x Hx | c k Hc Hk IH]; cbn [bind]; [apply Hf; exact Hx|].
  constructor; [exact Hc|]. intros i ans. apply IH.
Qed.

Lemma tree_sound {X} (P : call -> Prop) (ok : X -> Prop) (p : prog X) :
  Tree P ok p -> forall script s, Forall P s ->
  ok (fst (run script p s)) /\ Forall P (snd (run script p s)).
Proof.
  induction 1 as [x Hx | c k Hc Hk IH]; intros script s Hs; cbn [run]; [split; assumption|].
  apply IH. apply Forall_app. split; [exact Hs|constructor; [exact Hc|constructor]].
Qed.

Lemma tree_weaken {X} (P : call -> Prop) (ok1 ok2 : X -> Prop) (p : prog X) :
  (forall x, ok1 x -> ok2 x) -> Tree P ok1 p -> Tree P ok2 p.
Proof.
  intros Hw. induction 1 as [x Hx | c k Hc Hk IH]; constructor; auto.
Qed.
