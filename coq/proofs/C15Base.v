(** C15, part 1: permuting object members at any depth ([veq]); the relation between two
    specification results that it must preserve ([SEQ]): same value, the same reports up to order
    (embedded actual values compared up to [veq]), the same user-function invocations up to order. *)
From Coq Require Import Permutation.
From Deserr Require Import Base Pointer Kinds Value Prog Utf8 Scalars ScalarSpec Types Deser Spec Monitors.
Local Open Scope list_scope.

(** ** permutation modulo a relation *)
Definition PM {A} (R : A -> A -> Prop) (l l' : list A) : Prop :=
  exists m, Permutation l m /\ Forall2 R m l'.

Section PMLemmas.
  Context {A : Type} (R : A -> A -> Prop).
  Hypothesis R_refl : forall x, R x x.
  Hypothesis R_trans : forall x y z, R x y -> R y z -> R x z.

  Lemma Forall2_refl l : Forall2 R l l.
  Proof. induction l; constructor; auto. Qed.

  Lemma PM_refl l : PM R l l.
  Proof. exists l. split; [reflexivity|apply Forall2_refl]. Qed.

  Lemma PM_perm l l' : Permutation l l' -> PM R l l'.
  Proof. intros H. exists l'. split; [exact H|apply Forall2_refl]. Qed.

  Lemma PM_forall2 l l' : Forall2 R l l' -> PM R l l'.
  Proof. intros H. exists l. split; [reflexivity|exact H]. Qed.

  Lemma PM_app l1 l1' l2 l2' : PM R l1 l1' -> PM R l2 l2' -> PM R (l1 ++ l2) (l1' ++ l2').
  Proof.
    intros (m1 & P1 & F1) (m2 & P2 & F2). exists (m1 ++ m2). split; [apply Permutation_app; assumption|apply Forall2_app; assumption].
  Qed.

  Lemma PM_nil_l l : PM R [] l -> l = [].
  Proof. intros (m & P & F). apply Permutation_nil in P. subst. inversion F. reflexivity. Qed.
  Lemma PM_nil_r l : PM R l [] -> l = [].
  Proof. intros (m & P & F). inversion F; subst. apply Permutation_sym, Permutation_nil in P. exact P. Qed.

  (** a pointwise relation can be pushed through a permutation *)
  Lemma Forall2_perm_commute l1 l2 l3 :
    Forall2 R l1 l2 -> Permutation l2 l3 -> exists l1', Permutation l1 l1' /\ Forall2 R l1' l3.
  Proof.
    intros HF HP. revert l1 HF. induction HP as [|x l l' HP IH|x y l|l l' l'' HP1 IH1 HP2 IH2]; intros l1 HF.
    - inversion HF; subst. exists []. split; constructor.
    - inversion HF as [|a ? l1t ? Ha Ht]; subst. destruct (IH l1t Ht) as (m & Pm & Fm).
      exists (a :: m). split; [constructor; exact Pm|constructor; assumption].
    - inversion HF as [|a ? l1t ? Ha Ht]; subst. inversion Ht as [|b ? l1tt ? Hb Htt]; subst.
      exists (b :: a :: l1tt). split; [apply perm_swap|repeat constructor; assumption].
    - destruct (IH1 l1 HF) as (m1 & P1 & F1). destruct (IH2 m1 F1) as (m2 & P2 & F2).
      exists m2. split; [eapply Permutation_trans; eassumption|exact F2].
  Qed.

  Lemma Forall2_trans l1 l2 l3 : Forall2 R l1 l2 -> Forall2 R l2 l3 -> Forall2 R l1 l3.
  Proof.
    intros H. revert l3. induction H; intros l3 H3; inversion H3; subst; constructor; eauto.
  Qed.

  Lemma PM_trans l1 l2 l3 : PM R l1 l2 -> PM R l2 l3 -> PM R l1 l3.
  Proof.
    intros (m1 & P1 & F1) (m2 & P2 & F2).
    destruct (Forall2_perm_commute m1 l2 m2 F1 P2) as (m1' & P1' & F1').
    exists m1'. split; [eapply Permutation_trans; eassumption|eapply Forall2_trans; eassumption].
  Qed.

  Lemma PM_length l l' : PM R l l' -> List.length l = List.length l'.
  Proof.
    intros (m & P & F). rewrite (Permutation_length P). clear P. induction F; cbn; congruence.
  Qed.

  Lemma PM_flat_map {B} (f g : B -> list A) l :
    (forall x, In x l -> PM R (f x) (g x)) -> PM R (flat_map f l) (flat_map g l).
  Proof.
    induction l as [|x l IH]; intros H; [apply PM_refl|]. cbn [flat_map]. apply PM_app; [apply H; left; reflexivity|].
    apply IH. intros y Hy. apply H. right. exact Hy.
  Qed.
End PMLemmas.

Lemma Permutation_flat_map_perm {A B} (f : A -> list B) l1 l2 : Permutation l1 l2 -> Permutation (flat_map f l1) (flat_map f l2).
Proof.
  induction 1; cbn [flat_map]; [constructor|apply Permutation_app_head; assumption| |eapply Permutation_trans; eassumption].
  rewrite !app_assoc. apply Permutation_app_tail. apply Permutation_app_comm.
Qed.

Lemma Permutation_flat_map_pointwise {A B} (f g : A -> list B) l :
  (forall x, In x l -> Permutation (f x) (g x)) -> Permutation (flat_map f l) (flat_map g l).
Proof.
  induction l as [|x l IH]; intros H; [constructor|]. cbn [flat_map]. apply Permutation_app; [apply H; left; reflexivity|].
  apply IH. intros y Hy. apply H. right. exact Hy.
Qed.

(** ** the same payload up to the order of object members, at any depth *)
Inductive veq : value -> value -> Prop :=
| veq_refl v : veq v v
| veq_trans a b c : veq a b -> veq b c -> veq a c
| veq_perm ms ms' : Permutation ms ms' -> veq (VMap ms) (VMap ms')
| veq_member pre k v v' post : veq v v' -> veq (VMap (pre ++ (k, v) :: post)) (VMap (pre ++ (k, v') :: post))
| veq_elem pre v v' post : veq v v' -> veq (VSeq (pre ++ v :: post)) (VSeq (pre ++ v' :: post)).

(** the kind of value is unchanged *)
Definition same_shape (a b : value) : Prop :=
  match a, b with
  | VMap _, VMap _ => True
  | VSeq x, VSeq y => List.length x = List.length y
  | VMap _, _ | _, VMap _ | VSeq _, _ | _, VSeq _ => False
  | _, _ => a = b
  end.

Lemma same_shape_refl a : same_shape a a.
Proof. destruct a; cbn; auto. Qed.

Lemma veq_shape a b : veq a b -> same_shape a b.
Proof.
  induction 1 as [v|a b c _ IH1 _ IH2|ms ms' _|pre k v v' post _ _|pre v v' post _ _].
  - apply same_shape_refl.
  - destruct a, b; cbn in IH1; try contradiction; try discriminate; subst; try exact IH2;
      destruct c; cbn in *; try contradiction; try discriminate; try congruence; auto.
  - exact I.
  - exact I.
  - cbn. rewrite !app_length. reflexivity.
Qed.

(** ** well-formed payloads: within every object, keys are distinct and no two distinct keys
    parse to the same map key (such as "1" and "01" for an integer-keyed map) *)
Definition good_keys (ks : list string) : Prop :=
  NoDup ks /\ forall kp k1 k2 a, In k1 ks -> In k2 ks -> parse_key kp k1 = inl a -> parse_key kp k2 = inl a -> k1 = k2.

Fixpoint wfv (v : value) : Prop :=
  match v with
  | VSeq vs => (fix go (vs : list value) : Prop := match vs with [] => True | x :: r => wfv x /\ go r end) vs
  | VMap ms => good_keys (map fst ms)
               /\ (fix go (ms : list (string * value)) : Prop :=
                     match ms with [] => True | (_, x) :: r => wfv x /\ go r end) ms
  | _ => True
  end.

Lemma wfv_seq vs : wfv (VSeq vs) <-> Forall wfv vs.
Proof.
  cbn [wfv]. induction vs as [|x vs IH]; [split; constructor|]. split.
  - intros [H1 H2]. constructor; [exact H1|apply IH; exact H2].
  - intros H. inversion H; subst. split; [assumption|apply IH; assumption].
Qed.

Lemma wfv_map ms : wfv (VMap ms) <-> good_keys (map fst ms) /\ Forall (fun kv => wfv (snd kv)) ms.
Proof.
  cbn [wfv]. split; intros [Hk H]; (split; [exact Hk|]); clear Hk.
  - induction ms as [|[k x] ms IH]; [constructor|]. destruct H as [H1 H2]. constructor; [exact H1|apply IH; exact H2].
  - induction ms as [|[k x] ms IH]; [exact I|]. inversion H; subst. split; [assumption|apply IH; assumption].
Qed.

Lemma good_keys_perm ks ks' : Permutation ks ks' -> good_keys ks -> good_keys ks'.
Proof.
  intros HP [Hnd Hinj]. split; [eapply Permutation_NoDup; eassumption|].
  intros kp k1 k2 a H1 H2. apply Hinj; eapply Permutation_in; try apply Permutation_sym; eassumption.
Qed.

Lemma veq_wfv a b : veq a b -> wfv a -> wfv b.
Proof.
  induction 1 as [v|a b c _ IH1 _ IH2|ms ms' HP|pre k v v' post _ IH|pre v v' post _ IH]; intros Hw.
  - exact Hw.
  - auto.
  - apply wfv_map in Hw. destruct Hw as [Hk Hf]. apply wfv_map. split.
    + eapply good_keys_perm; [apply Permutation_map; exact HP|exact Hk].
    + rewrite Forall_forall in *. intros kv Hin. apply Hf. eapply Permutation_in; [apply Permutation_sym; exact HP|exact Hin].
  - apply wfv_map in Hw. destruct Hw as [Hk Hf]. apply wfv_map. split.
    + rewrite map_app in *. exact Hk.
    + rewrite Forall_forall in *. intros kv Hin. apply in_app_or in Hin. destruct Hin as [Hin|[<-|Hin]].
      * apply Hf. apply in_or_app. left. exact Hin.
      * cbn [snd]. apply IH. apply (Hf (k, v)). apply in_or_app. right. left. reflexivity.
      * apply Hf. apply in_or_app. right. right. exact Hin.
  - apply wfv_seq in Hw. apply wfv_seq. rewrite Forall_forall in *. intros x Hin. apply in_app_or in Hin.
    destruct Hin as [Hin|[<-|Hin]].
    + apply Hw. apply in_or_app. left. exact Hin.
    + apply IH. apply Hw. apply in_or_app. right. left. reflexivity.
    + apply Hw. apply in_or_app. right. right. exact Hin.
Qed.

(** ** reports up to the order of members inside embedded actual values *)
Inductive feq : fault -> fault -> Prop :=
| feq_refl f : feq f f
| feq_ivk v v' acc l : veq v v' -> feq (FKind (IncorrectValueKind v acc) l) (FKind (IncorrectValueKind v' acc) l)
| feq_len vs vs' n l : veq (VSeq vs) (VSeq vs') -> feq (FKind (BadSequenceLen vs n) l) (FKind (BadSequenceLen vs' n) l).

Lemma feq_trans a b c : feq a b -> feq b c -> feq a c.
Proof.
  intros H1 H2. inversion H1; subst; [exact H2| |]; inversion H2; subst; try exact H1.
  - apply feq_ivk. eapply veq_trans; eassumption.
  - apply feq_len. eapply veq_trans; eassumption.
Qed.

(** ** the relation between specification results *)
Definition SEQ (r r' : sres) : Prop :=
  s_out r = s_out r' /\ PM feq (s_faults r) (s_faults r') /\ Permutation (s_ucalls r) (s_ucalls r').

Lemma SEQ_refl r : SEQ r r.
Proof. split; [reflexivity|split; [apply PM_refl; apply feq_refl|reflexivity]]. Qed.

Lemma SEQ_trans a b c : SEQ a b -> SEQ b c -> SEQ a c.
Proof.
  intros (O1 & F1 & U1) (O2 & F2 & U2). split; [congruence|split; [|eapply Permutation_trans; eassumption]].
  eapply PM_trans; [exact feq_trans|eassumption|eassumption].
Qed.

Lemma SEQ_mk o fs fs' us us' : PM feq fs fs' -> Permutation us us' -> SEQ (mkS o fs us) (mkS o fs' us').
Proof. intros F U. split; [reflexivity|split; assumption]. Qed.

Lemma SEQ_kind v v' acc l : veq v v' -> SEQ (s_kind v acc l) (s_kind v' acc l).
Proof.
  intros H. apply SEQ_mk; [|reflexivity]. apply PM_forall2. constructor; [apply feq_ivk; exact H|constructor].
Qed.

(** faults are empty on both sides or on neither *)
Lemma SEQ_faults_nil r r' : SEQ r r' -> (s_faults r = [] <-> s_faults r' = []).
Proof.
  intros (_ & F & _). split; intros H; rewrite H in F; [apply PM_nil_l in F|apply PM_nil_r in F]; exact F.
Qed.

(** wrappers *)
Lemma SEQ_validate val l r r' : SEQ r r' -> SEQ (s_validate val l r) (s_validate val l r').
Proof.
  intros H. pose proof H as (O & F & U). unfold s_validate. destruct val as [fn|]; [|exact H].
  rewrite <- O. destruct (s_out r) as [o|]; [|exact H].
  destruct (ufail o); apply SEQ_mk; try (apply PM_refl; apply feq_refl); apply Permutation_app_tail; exact U.
Qed.

Lemma SEQ_option r r' :
  SEQ r r' -> SEQ (mkS (option_map OSome (s_out r)) (s_faults r) (s_ucalls r))
                  (mkS (option_map OSome (s_out r')) (s_faults r') (s_ucalls r')).
Proof. intros (O & F & U). rewrite O. apply SEQ_mk; assumption. Qed.

Lemma SEQ_from fn val l r r' :
  SEQ r r' ->
  SEQ (match s_out r with
       | Some o => s_validate val l (mkS (Some (OFn fn o)) [] (s_ucalls r ++ [(fn, [AOut o])]))
       | None => r
       end)
      (match s_out r' with
       | Some o => s_validate val l (mkS (Some (OFn fn o)) [] (s_ucalls r' ++ [(fn, [AOut o])]))
       | None => r'
       end).
Proof.
  intros H. pose proof H as (O & F & U). rewrite <- O. destruct (s_out r) as [o|]; [|exact H].
  apply SEQ_validate. apply SEQ_mk; [apply PM_refl; apply feq_refl|apply Permutation_app_tail; exact U].
Qed.

Lemma SEQ_try_from fn val l r r' :
  SEQ r r' ->
  SEQ (match s_out r with
       | Some o =>
         if ufail o then mkS None [FUser (fn, [AOut o]) l] (s_ucalls r ++ [(fn, [AOut o])])
         else s_validate val l (mkS (Some (OFn fn o)) [] (s_ucalls r ++ [(fn, [AOut o])]))
       | None => r
       end)
      (match s_out r' with
       | Some o =>
         if ufail o then mkS None [FUser (fn, [AOut o]) l] (s_ucalls r' ++ [(fn, [AOut o])])
         else s_validate val l (mkS (Some (OFn fn o)) [] (s_ucalls r' ++ [(fn, [AOut o])]))
       | None => r'
       end).
Proof.
  intros H. pose proof H as (O & F & U). rewrite <- O. destruct (s_out r) as [o|]; [|exact H].
  destruct (ufail o).
  - apply SEQ_mk; [apply PM_refl; apply feq_refl|apply Permutation_app_tail; exact U].
  - apply SEQ_validate. apply SEQ_mk; [apply PM_refl; apply feq_refl|apply Permutation_app_tail; exact U].
Qed.

(** children of a container, position by position *)
Lemma all_some_outs_eq (ch ch' : list sres) :
  Forall2 SEQ ch ch' -> map s_out ch = map s_out ch'.
Proof. induction 1 as [|r r' ch ch' (O & _) _ IH]; [reflexivity|]. cbn. rewrite O, IH. reflexivity. Qed.

Lemma SEQ_collect ch ch' mk : Forall2 SEQ ch ch' -> SEQ (s_collect ch mk) (s_collect ch' mk).
Proof.
  intros H. unfold s_collect.
  assert (HF : PM feq (flat_map s_faults ch) (flat_map s_faults ch')).
  { induction H as [|r r' ch ch' (_ & F & _) _ IH]; [apply PM_refl; apply feq_refl|]. cbn [flat_map]. apply PM_app; assumption. }
  assert (HU : Permutation (flat_map s_ucalls ch) (flat_map s_ucalls ch')).
  { clear HF. induction H as [|r r' ch ch' (_ & _ & U) _ IH]; [constructor|]. cbn [flat_map]. apply Permutation_app; assumption. }
  split; [|split; [exact HF|exact HU]]. cbn [s_out].
  rewrite (all_some_outs_eq _ _ H).
  destruct (flat_map s_faults ch) eqn:E1; destruct (flat_map s_faults ch') eqn:E2; try reflexivity.
  - apply PM_nil_l in HF. discriminate.
  - apply PM_nil_r in HF. discriminate.
Qed.
