(** C02: the statements of the property, assembled from the refinement theorem and the
    held-reports theorem, plus the "siblings never hide each other" facts of the specification. *)
From Coq Require Import Permutation.
From Deserr Require Import Base Pointer Kinds Value Prog Utf8 Scalars ScalarSpec Types Deser Spec Monitors.
From Deserr.proofs Require Import ProgProofs RefineBase RefineLoops RefineFields RefineStruct HeldProofs.
Local Open Scope list_scope.

Lemma keep_going_outcome : forall t v,
  exists r tr,
    run (fun _ => true) (deserialize t v) [] = (r, tr)
    /\ trace_faults tr = faults t v Origin
    /\ trace_ucalls tr = s_ucalls (spec t v Origin)
    /\ match r with
       | ROk o => okval t v = Some o /\ faults t v Origin = []
       | RErr e => okval t v = None /\ faults t v Origin <> []
                   /\ Permutation (reports_under tr (List.length tr) e) (faults t v Origin)
       | RPanic _ => False
       end.
Proof.
  intros t v. destruct (deser_refines_spec t 0%N v Origin []) as (r & ext & Hrun & Hf & Hu & Hm).
  exists r, ext. cbn [app] in Hrun. unfold deserialize. repeat split; try assumption.
  destruct r as [o|e|site]; cbn [res_matches] in Hm; [exact Hm| |exact Hm].
  destruct Hm as [Ho Hne]. repeat split; try assumption.
  unfold faults. rewrite <- Hf. apply (final_error_holds_all_reports t v (fun _ => true)). exact Hrun.
Qed.

Lemma flat_map_map {A B C} (f : B -> list C) (g : A -> B) l : flat_map f (map g l) = flat_map (fun x => f (g x)) l.
Proof. induction l as [|x l IH]; [reflexivity|]. cbn. rewrite IH. reflexivity. Qed.

(** elements of a sequence: the faults of the container are the faults of every element, each
    at its own index - nothing one element does hides another *)
Lemma seq_faults_independent el vs l mk :
  s_faults (s_seq el vs l mk) = flat_map (fun iv => s_faults (el (snd iv) (Index (fst iv) l))) (indexed vs 0).
Proof. unfold s_seq, s_collect. cbn [s_faults]. apply flat_map_map. Qed.

Lemma vec_faults_independent t vs l :
  faults (TVec t) (VSeq vs) l = flat_map (fun iv => faults t (snd iv) (Index (fst iv) l)) (indexed vs 0).
Proof. unfold faults. cbn [spec]. apply seq_faults_independent. Qed.

Lemma map_faults_independent kp n t ms l :
  faults (TMap kp n t) (VMap ms) l
  = flat_map (fun kv => match parse_key kp (fst kv) with
                        | inl _ => faults t (snd kv) (Key (fst kv) l)
                        | inr _ => [FKind (Unexpected (key_msg (fst kv) n)) l]
                        end) ms.
Proof.
  unfold faults. cbn [spec]. unfold s_map. cbn [s_faults]. rewrite flat_map_map.
  apply flat_map_ext_in. intros kv _. destruct (parse_key kp (fst kv)); reflexivity.
Qed.

(** fields of a derived struct: the faults are those of every payload member (whatever the field
    it fills, or the unknown-key report) followed by one report per field left without a value *)
Lemma fields_faults_independent fs sk d mk ms l :
  let members := map (s_member fs d l) ms in
  let vals := map (fun p => s_field_value (fst p) (snd p) members) (indexed_nat fs) in
  s_faults (s_fields fs sk d mk ms l)
  = flat_map (fun m => s_faults (snd m)) members
    ++ flat_map (fun p : spfield * option (option out) =>
                   match snd p with
                   | None => match sp_missing (fst p) with
                             | None => [FKind (MissingField (sp_key (fst p))) l]
                             | Some fn => [FUser (fn, [AStr (sp_key (fst p)); ALoc (to_owned l)]) l]
                             end
                   | Some _ => []
                   end) (combine fs vals).
Proof.
  cbv zeta. unfold s_fields. cbv zeta.
  set (members := map (s_member fs d l) ms).
  set (vals := map (fun p => s_field_value (fst p) (snd p) members) (indexed_nat fs)).
  match goal with |- s_faults (match ?F with [] => _ | _ => _ end) = _ => assert (HF : s_faults (match F with [] => mkS None [] [] | _ => mkS None F [] end) = F) by (destruct F; reflexivity); destruct F eqn:EF end.
  - cbn [s_faults]. symmetry. apply app_eq_nil in EF. destruct EF as [E1 E2]. rewrite E1. cbn [app].
    clear - E2. induction (combine fs vals) as [|p r IH]; [reflexivity|]. cbn [flat_map map] in *.
    rewrite map_app in E2. apply app_eq_nil in E2. destruct E2 as [E2 E3]. rewrite (IH E3), app_nil_r.
    destruct (snd p); [reflexivity|]. destruct (sp_missing (fst p)); discriminate.
  - cbn [s_faults]. rewrite <- EF. f_equal.
    clear. induction (combine fs vals) as [|p r IH]; [reflexivity|]. cbn [flat_map map]. rewrite map_app, IH. f_equal.
    destruct (snd p); [reflexivity|]. destruct (sp_missing (fst p)); reflexivity.
Qed.
