(** C14: the JSON rendering of a location can be parsed back into exactly the steps of the
    location, provided no key contains '.' or '[' (otherwise the text is ambiguous by nature). *)
From Coq Require Import DecimalString DecimalN DecimalPos.
From Deserr Require Import Base Pointer Kinds Value Scalars Messages.
Local Open Scope string_scope.

(** ** a left-to-right parser of rendered paths *)
Inductive pmode := PStart | PKey (buf : string) | PIdx (buf : string).
Definition pstate := (pmode * list step)%type.      (* the steps read so far, innermost first *)

Definition flush (st : pstate) : list step :=
  match fst st with PKey buf => SKey buf :: snd st | _ => snd st end.

Definition snoc (s : string) (c : ascii) : string := s ++ String c "".

Definition pstep (st : pstate) (c : ascii) : option pstate :=
  match fst st with
  | PStart =>
    if Ascii.eqb c "." then Some (PKey "", snd st)
    else if Ascii.eqb c "[" then Some (PIdx "", snd st) else None
  | PKey buf =>
    if Ascii.eqb c "." then Some (PKey "", flush st)
    else if Ascii.eqb c "[" then Some (PIdx "", flush st)
    else Some (PKey (snoc buf c), snd st)
  | PIdx buf =>
    if Ascii.eqb c "]" then
      match NilZero.uint_of_string buf with
      | Some d => Some (PStart, SIndex (N.of_uint d) :: snd st)
      | None => None
      end
    else Some (PIdx (snoc buf c), snd st)
  end.

Fixpoint prun (s : string) (st : pstate) : option pstate :=
  match s with
  | EmptyString => Some st
  | String c r => match pstep st c with Some st' => prun r st' | None => None end
  end.

Definition parse_path (s : string) : option (list step) :=
  match prun s (PStart, []) with
  | Some (PIdx _, _) => None
  | Some st => Some (rev (flush st))
  | None => None
  end.

Lemma prun_app a b st : prun (a ++ b) st = match prun a st with Some st' => prun b st' | None => None end.
Proof.
  revert st. induction a as [|c a IH]; intros st; cbn [append prun]; [reflexivity|].
  destruct (pstep st c); [apply IH|reflexivity].
Qed.

(** keys that keep the rendering unambiguous *)
Fixpoint plain_key (k : string) : bool :=
  match k with
  | EmptyString => true
  | String c r => negb (Ascii.eqb c ".") && negb (Ascii.eqb c "[") && plain_key r
  end.
Fixpoint plain_keys (l : vpr) : bool :=
  match l with
  | Origin => true
  | Key k prev => plain_key k && plain_keys prev
  | Index _ prev => plain_keys prev
  end.

Lemma app_empty_r (s : string) : s ++ "" = s.
Proof. induction s as [|c s IH]; cbn; [reflexivity|]. rewrite IH. reflexivity. Qed.

Lemma snoc_app buf c r : snoc buf c ++ r = buf ++ String c r.
Proof. unfold snoc. induction buf as [|b buf IH]; cbn; [reflexivity|]. rewrite IH. reflexivity. Qed.

Lemma prun_key k : forall buf acc, plain_key k = true -> prun k (PKey buf, acc) = Some (PKey (buf ++ k), acc).
Proof.
  induction k as [|c k IH]; intros buf acc H; cbn [prun].
  - rewrite app_empty_r. reflexivity.
  - cbn [plain_key] in H. apply andb_prop in H. destruct H as [H Hk]. apply andb_prop in H. destruct H as [H1 H2].
    unfold pstep. cbn [fst snd]. destruct (Ascii.eqb c "."); [discriminate|]. destruct (Ascii.eqb c "["); [discriminate|].
    rewrite (IH (snoc buf c) acc Hk), snoc_app. reflexivity.
Qed.

Definition is_digit (c : ascii) : bool :=
  match c with
  | "0" | "1" | "2" | "3" | "4" | "5" | "6" | "7" | "8" | "9" => true
  | _ => false
  end%char.

Fixpoint all_digits (s : string) : bool :=
  match s with EmptyString => true | String c r => is_digit c && all_digits r end.

Lemma dec_all_digits d : all_digits (NilEmpty.string_of_uint d) = true.
Proof. induction d; cbn; try reflexivity; exact IHd. Qed.

Lemma dec_N_digits n : all_digits (dec_N n) = true.
Proof.
  unfold dec_N, NilZero.string_of_uint. destruct (N.to_uint n) eqn:E; try reflexivity; rewrite <- E; apply dec_all_digits.
Qed.

Lemma prun_digits s : forall buf acc, all_digits s = true -> prun s (PIdx buf, acc) = Some (PIdx (buf ++ s), acc).
Proof.
  induction s as [|c s IH]; intros buf acc H; cbn [prun].
  - rewrite app_empty_r. reflexivity.
  - cbn [all_digits] in H. apply andb_prop in H. destruct H as [Hc Hs].
    unfold pstep. cbn [fst snd].
    assert (Ascii.eqb c "]" = false).
    { destruct (Ascii.eqb c "]") eqn:E; [|reflexivity]. apply Ascii.eqb_eq in E. subst c. discriminate. }
    rewrite H, (IH (snoc buf c) acc Hs), snoc_app. reflexivity.
Qed.

Lemma N_to_uint_nonnil n : N.to_uint n <> Decimal.Nil.
Proof. destruct n; cbn; [discriminate|apply DecimalPos.Unsigned.to_uint_nonnil]. Qed.

(** after reading the rendering of [l]: the steps of [l], innermost first, the last key (if the
    path ends with one) still in the buffer *)
Lemma prun_path_json l : plain_keys l = true ->
  exists st, prun (path_json l) (PStart, []) = Some st /\ flush st = walk_back l
             /\ (match fst st with PIdx _ => False | _ => True end).
Proof.
  induction l as [|k prev IH|i prev IH]; intros H; cbn [path_json plain_keys] in *.
  - exists (PStart, []). repeat split.
  - apply andb_prop in H. destruct H as [Hk Hp]. destruct (IH Hp) as (st & Hrun & Hfl & Hmode).
    rewrite prun_app, Hrun. cbn [append prun].
    assert (Hstep : pstep st "." = Some (PKey "", flush st)).
    { unfold pstep, flush. destruct st as [[|buf|buf] acc]; cbn [fst snd] in *; try reflexivity. contradiction. }
    rewrite Hstep, (prun_key k "" (flush st) Hk). cbn [append].
    exists (PKey k, flush st). repeat split. unfold flush at 1. cbn [fst snd walk_back]. rewrite Hfl. reflexivity.
  - destruct (IH H) as (st & Hrun & Hfl & Hmode). rewrite prun_app, Hrun. cbn [append prun].
    assert (Hstep : pstep st "[" = Some (PIdx "", flush st)).
    { unfold pstep, flush. destruct st as [[|buf|buf] acc]; cbn [fst snd] in *; try reflexivity. contradiction. }
    rewrite Hstep, prun_app, (prun_digits (dec_N i) "" (flush st) (dec_N_digits i)). cbn [append prun].
    unfold pstep. cbn [fst snd]. replace (Ascii.eqb "]" "]") with true by reflexivity.
    unfold dec_N. rewrite (NilZero.usu _ (N_to_uint_nonnil i)), DecimalN.Unsigned.of_to.
    exists (PStart, SIndex i :: flush st). repeat split. unfold flush at 1. cbn [fst snd walk_back]. rewrite Hfl. reflexivity.
Qed.

Theorem path_json_roundtrip l : plain_keys l = true -> parse_path (path_json l) = Some (to_owned l).
Proof.
  intros H. destruct (prun_path_json l H) as (st & Hrun & Hfl & Hmode). unfold parse_path. rewrite Hrun.
  destruct st as [[|buf|buf] acc]; cbn [fst] in Hmode; try contradiction; rewrite Hfl; reflexivity.
Qed.

(** hence the rendering is injective on such locations *)
Corollary path_json_injective l1 l2 :
  plain_keys l1 = true -> plain_keys l2 = true -> path_json l1 = path_json l2 -> to_owned l1 = to_owned l2.
Proof.
  intros H1 H2 E. pose proof (path_json_roundtrip l1 H1) as R1. rewrite E, (path_json_roundtrip l2 H2) in R1. inversion R1. reflexivity.
Qed.

(** ** the query-parameter rendering: the same text without the leading dot of a first key *)
Fixpoint lead (l : vpr) : string :=
  match l with
  | Origin => ""
  | Key _ Origin => "."
  | Key _ p => lead p
  | Index _ p => lead p
  end.

Lemma app_assoc_s (a b c : string) : (a ++ b) ++ c = a ++ (b ++ c).
Proof. induction a as [|x a IH]; cbn; [reflexivity|]. rewrite IH. reflexivity. Qed.

Lemma path_json_qp l : path_json l = lead l ++ path_qp l.
Proof.
  induction l as [|k prev IH|i prev IH]; [reflexivity| |].
  - cbn [path_json path_qp lead]. destruct prev as [|k' p'|i' p']; [reflexivity| |]; rewrite IH, app_assoc_s; reflexivity.
  - cbn [path_json path_qp lead]. rewrite IH, app_assoc_s. reflexivity.
Qed.

(** the outermost step decides how the text starts *)
Fixpoint starts_with_key (l : vpr) : option string :=
  match l with
  | Origin => None
  | Key k Origin => Some k
  | Key _ p => starts_with_key p
  | Index _ Origin => None
  | Index _ p => starts_with_key p
  end.

Definition qp_ok (l : vpr) : bool :=
  plain_keys l && match starts_with_key l with Some k => negb (String.eqb k "") | None => true end.

Definition parse_path_qp (s : string) : option (list step) :=
  match s with
  | EmptyString => Some []
  | String c _ => if Ascii.eqb c "[" then parse_path s else parse_path ("." ++ s)
  end.

Lemma lead_cases l : (lead l = "." /\ exists k, starts_with_key l = Some k) \/ (lead l = "" /\ starts_with_key l = None).
Proof.
  induction l as [|k prev IH|i prev IH]; [right; split; reflexivity| |].
  - destruct prev as [|k' p'|i' p']; [left; split; [reflexivity|exists k; reflexivity]| |]; exact IH.
  - destruct prev as [|k' p'|i' p']; [right; split; reflexivity| |]; exact IH.
Qed.

(** first character of the rendering *)
Lemma path_qp_head l :
  match starts_with_key l with
  | Some k => exists rest, path_qp l = k ++ rest
  | None => l = Origin \/ exists rest, path_qp l = String "[" rest
  end.
Proof.
  induction l as [|k prev IH|i prev IH]; [left; reflexivity| |].
  - destruct prev as [|k' p'|i' p'].
    + cbn [starts_with_key path_qp]. exists "". rewrite app_empty_r. reflexivity.
    + change (starts_with_key (Key k (Key k' p'))) with (starts_with_key (Key k' p')).
      change (path_qp (Key k (Key k' p'))) with (path_qp (Key k' p') ++ "." ++ k).
      destruct (starts_with_key (Key k' p')) as [k0|].
      * destruct IH as [rest Hr]. exists (rest ++ "." ++ k). rewrite Hr, app_assoc_s. reflexivity.
      * destruct IH as [H|[rest Hr]]; [discriminate|]. right. exists (rest ++ "." ++ k). rewrite Hr. reflexivity.
    + change (starts_with_key (Key k (Index i' p'))) with (starts_with_key (Index i' p')).
      change (path_qp (Key k (Index i' p'))) with (path_qp (Index i' p') ++ "." ++ k).
      destruct (starts_with_key (Index i' p')) as [k0|].
      * destruct IH as [rest Hr]. exists (rest ++ "." ++ k). rewrite Hr, app_assoc_s. reflexivity.
      * destruct IH as [H|[rest Hr]]; [discriminate|]. right. exists (rest ++ "." ++ k). rewrite Hr. reflexivity.
  - destruct prev as [|k' p'|i' p'].
    + cbn [starts_with_key path_qp]. right. exists (dec_N i ++ "]"). reflexivity.
    + change (starts_with_key (Index i (Key k' p'))) with (starts_with_key (Key k' p')).
      change (path_qp (Index i (Key k' p'))) with (path_qp (Key k' p') ++ "[" ++ dec_N i ++ "]").
      destruct (starts_with_key (Key k' p')) as [k0|].
      * destruct IH as [rest Hr]. exists (rest ++ "[" ++ dec_N i ++ "]"). rewrite Hr, app_assoc_s. reflexivity.
      * destruct IH as [H|[rest Hr]]; [discriminate|]. right. exists (rest ++ "[" ++ dec_N i ++ "]"). rewrite Hr. reflexivity.
    + change (starts_with_key (Index i (Index i' p'))) with (starts_with_key (Index i' p')).
      change (path_qp (Index i (Index i' p'))) with (path_qp (Index i' p') ++ "[" ++ dec_N i ++ "]").
      destruct (starts_with_key (Index i' p')) as [k0|].
      * destruct IH as [rest Hr]. exists (rest ++ "[" ++ dec_N i ++ "]"). rewrite Hr, app_assoc_s. reflexivity.
      * destruct IH as [H|[rest Hr]]; [discriminate|]. right. exists (rest ++ "[" ++ dec_N i ++ "]"). rewrite Hr. reflexivity.
Qed.

Lemma starts_key_plain l k : plain_keys l = true -> starts_with_key l = Some k -> plain_key k = true.
Proof.
  induction l as [|k' prev IH|i prev IH]; intros Hp Hs; [discriminate| |]; cbn [plain_keys] in Hp.
  - apply andb_prop in Hp. destruct Hp as [Hk Hp]. destruct prev as [|k2 p2|i2 p2]; [inversion Hs; subst; exact Hk| |]; apply IH; assumption.
  - destruct prev as [|k2 p2|i2 p2]; [discriminate| |]; apply IH; assumption.
Qed.

Theorem path_qp_roundtrip l : qp_ok l = true -> parse_path_qp (path_qp l) = Some (to_owned l).
Proof.
  unfold qp_ok. intros H. apply andb_prop in H. destruct H as [Hp Hk].
  pose proof (path_json_roundtrip l Hp) as Hj. rewrite path_json_qp in Hj.
  pose proof (path_qp_head l) as Hh.
  destruct (lead_cases l) as [[Hl [k Hs]]|[Hl Hs]]; rewrite Hl in Hj; rewrite Hs in *.
  - destruct Hh as [rest Hr]. apply Bool.negb_true_iff, String.eqb_neq in Hk.
    destruct k as [|c k']; [contradiction|]. rewrite Hr in *. cbn [append] in *. unfold parse_path_qp.
    pose proof (starts_key_plain l (String c k') Hp Hs) as Hpk. cbn [plain_key] in Hpk.
    apply andb_prop in Hpk. destruct Hpk as [Hc _]. apply andb_prop in Hc. destruct Hc as [_ Hc].
    apply Bool.negb_true_iff in Hc. rewrite Hc. exact Hj.
  - cbn [append] in Hj. destruct Hh as [->|[rest Hr]]; [reflexivity|]. rewrite Hr in *. unfold parse_path_qp.
    replace (Ascii.eqb "[" "[") with true by reflexivity. exact Hj.
Qed.
