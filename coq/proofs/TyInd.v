(** Induction principle for the nested type [ty]. *)
From Deserr Require Import Base Pointer Kinds Value Scalars Types.

Section TyInd.
  Variable P : ty -> Prop.
  Definition Pfields (fs : list (cfield ty)) : Prop := Forall (fun f => P (cf_ty f)) fs.
  Definition Pvariant (v : cvariant ty) : Prop :=
    match cv_data v with VDUnit => True | VDNamed s => Pfields (cs_fields s) end.

  Hypothesis HUnit : P TUnit.
  Hypothesis HBool : P TBool.
  Hypothesis HInt : forall d, P (TInt d).
  Hypothesis HF32 : P TF32.
  Hypothesis HF64 : P TF64.
  Hypothesis HChar : P TChar.
  Hypothesis HString : P TString.
  Hypothesis HPhantom : P TPhantom.
  Hypothesis HJson : P TJson.
  Hypothesis HVec : forall t, P t -> P (TVec t).
  Hypothesis HArray : forall n t, P t -> P (TArray n t).
  Hypothesis HTuple2 : forall a b, P a -> P b -> P (TTuple2 a b).
  Hypothesis HTuple3 : forall a b c, P a -> P b -> P c -> P (TTuple3 a b c).
  Hypothesis HHashSet : forall t, P t -> P (THashSet t).
  Hypothesis HBTreeSet : forall t, P t -> P (TBTreeSet t).
  Hypothesis HMap : forall kp n t, P t -> P (TMap kp n t).
  Hypothesis HOption : forall t, P t -> P (TOption t).
  Hypothesis HBox : forall t, P t -> P (TBox t).
  Hypothesis HCS : forall ep, P (TCS ep).
  Hypothesis HStruct : forall s val, Pfields (cs_fields s) -> P (TStruct s val).
  Hypothesis HTagged : forall tag vs val, Forall Pvariant vs -> P (TEnumTagged tag vs val).
  Hypothesis HUnitEnum : forall vs val, P (TEnumUnit vs val).
  Hypothesis HFrom : forall i fn val, P i -> P (TFrom i fn val).
  Hypothesis HTryFrom : forall i fn val, P i -> P (TTryFrom i fn val).

  Fixpoint ty_ind' (t : ty) : P t :=
    let fields_ok :=
        fix go (fs : list (cfield ty)) : Pfields fs :=
          match fs with
          | [] => Forall_nil _
          | f :: r => Forall_cons f (ty_ind' (cf_ty f)) (go r)
          end in
    match t with
    | TUnit => HUnit | TBool => HBool | TInt d => HInt d | TF32 => HF32 | TF64 => HF64
    | TChar => HChar | TString => HString | TPhantom => HPhantom | TJson => HJson
    | TVec t' => HVec t' (ty_ind' t')
    | TArray n t' => HArray n t' (ty_ind' t')
    | TTuple2 a b => HTuple2 a b (ty_ind' a) (ty_ind' b)
    | TTuple3 a b c => HTuple3 a b c (ty_ind' a) (ty_ind' b) (ty_ind' c)
    | THashSet t' => HHashSet t' (ty_ind' t')
    | TBTreeSet t' => HBTreeSet t' (ty_ind' t')
    | TMap kp n t' => HMap kp n t' (ty_ind' t')
    | TOption t' => HOption t' (ty_ind' t')
    | TBox t' => HBox t' (ty_ind' t')
    | TCS ep => HCS ep
    | TStruct s val => HStruct s val (fields_ok (cs_fields s))
    | TEnumTagged tag vs val =>
      HTagged tag vs val
              ((fix gov (vs : list (cvariant ty)) : Forall Pvariant vs :=
                  match vs with
                  | [] => Forall_nil _
                  | v :: r =>
                    Forall_cons v
                                (match v as v0 return Pvariant v0 with
                                 | mkCV i k d =>
                                   match d as d0 return Pvariant (mkCV i k d0) with
                                   | VDUnit => I
                                   | VDNamed s => fields_ok (cs_fields s)
                                   end
                                 end)
                                (gov r)
                  end) vs)
    | TEnumUnit vs val => HUnitEnum vs val
    | TFrom i fn val => HFrom i fn val (ty_ind' i)
    | TTryFrom i fn val => HTryFrom i fn val (ty_ind' i)
    end.
End TyInd.
