(** C15, part 3: map targets, serde_json::Value objects and the enum tag are insensitive to the
    order of the members. *)
From Coq Require Import Permutation.
From Deserr Require Import Base Pointer Kinds Value Prog Utf8 Scalars ScalarSpec Types Deser Spec Monitors.
From Deserr.proofs Require Import JsonProofs RefineLoops SortedIns C15Base.
Local Open Scope list_scope.

Lemma NoDup_app_tail {A} (l1 l2 : list A) : NoDup (l1 ++ l2) -> NoDup l2.
Proof. induction l1 as [|x l1 IH]; cbn [app]; intros H; [exact H|]. inversion H; subst. apply IH. assumption. Qed.

(** ** map targets *)
Definition per_entry := (option out * sres)%type.
Definition prel (a b : per_entry) : Prop := fst a = fst b /\ SEQ (snd a) (snd b).
Lemma prel_refl a : prel a a.
Proof. split; [reflexivity|apply SEQ_refl]. Qed.

Definition ostep (acc : option (list (out * out))) (p : per_entry) : option (list (out * out)) :=
  match acc, fst p, s_out (snd p) with
  | Some m, Some ko, Some o => Some (map_insert ko o m)
  | _, _, _ => None
  end.

Definition map_of_per (per : list per_entry) : sres :=
  let faults := flat_map (fun p : per_entry => s_faults (snd p)) per in
  mkS (match faults with
       | [] => option_map OMap (fold_left ostep per (Some []))
       | _ => None
       end)
      faults (flat_map (fun p : per_entry => s_ucalls (snd p)) per).

Lemma s_map_per el kp tyname ms l :
  s_map el kp tyname ms l = map_of_per (map (map_member_spec el kp tyname l) ms).
Proof. reflexivity. Qed.

Notation ksorted := (ssorted out out key_cmp).

Definition acc_ok (acc : option (list (out * out))) : Prop := match acc with Some m => ksorted m | None => True end.

Lemma ostep_ok acc p : acc_ok acc -> acc_ok (ostep acc p).
Proof.
  unfold ostep. destruct acc as [m|]; [|intros _; exact I]. destruct (fst p); [|intros _; exact I].
  destruct (s_out (snd p)); [|intros _; exact I]. cbn [acc_ok]. intros H. rewrite map_insert_ins.
  apply ins_sorted; [exact key_cmp_anti|exact key_cmp_lt_trans|exact key_cmp_eq_l|exact H].
Qed.

Definition keys_of (per : list per_entry) : list out := flat_map (fun p : per_entry => match fst p with Some k => [k] | None => [] end) per.

Lemma ofold_congr per per' : Forall2 prel per per' -> forall acc, fold_left ostep per acc = fold_left ostep per' acc.
Proof.
  induction 1 as [|a b la lb [Hk (O & _)] _ IH]; intros acc; [reflexivity|]. cbn [fold_left].
  replace (ostep acc b) with (ostep acc a) by (unfold ostep; rewrite Hk, O; reflexivity). apply IH.
Qed.

Lemma ofold_perm per per' :
  Permutation per per' -> NoDup (keys_of per) -> Forall is_key (keys_of per) ->
  forall acc, acc_ok acc -> fold_left ostep per acc = fold_left ostep per' acc.
Proof.
  induction 1 as [|x l l' HP IH|x y l|l l' l'' HP1 IH1 HP2 IH2]; intros Hnd Hk acc Hacc.
  - reflexivity.
  - cbn [fold_left]. unfold keys_of in *. cbn [flat_map] in *. apply IH.
    + apply NoDup_app_tail in Hnd. exact Hnd.
    + apply Forall_app in Hk. apply Hk.
    + apply ostep_ok. exact Hacc.
  - cbn [fold_left]. f_equal. unfold ostep. destruct acc as [m|]; [|destruct (fst y), (s_out (snd y)); reflexivity].
    unfold keys_of in Hnd, Hk. cbn [flat_map] in Hnd, Hk.
    destruct (fst y) as [ky|] eqn:Ey; destruct (s_out (snd y)) as [oy|] eqn:Oy;
      destruct (fst x) as [kx|] eqn:Ex; destruct (s_out (snd x)) as [ox|] eqn:Ox; try reflexivity.
    rewrite !map_insert_ins. f_equal.
    apply ins_comm; [exact key_cmp_anti|exact key_cmp_lt_trans|exact key_cmp_eq_l|exact Hacc|].
    cbn [app] in Hnd, Hk. intros E. inversion Hk as [|? ? Hky Hk']; subst. inversion Hk' as [|? ? Hkx _]; subst.
    apply key_cmp_eq_eq in E; [|assumption|assumption]. subst. inversion Hnd as [|? ? Hni _]; subst. apply Hni. left. reflexivity.
  - rewrite IH1 by assumption. apply IH2; [| |exact Hacc].
    + eapply Permutation_NoDup; [apply Permutation_flat_map_perm; exact HP1|exact Hnd].
    + eapply Permutation_Forall; [apply Permutation_flat_map_perm; exact HP1|exact Hk].
Qed.

Lemma per_faults_PM per per' :
  PM prel per per' ->
  PM feq (flat_map (fun p : per_entry => s_faults (snd p)) per) (flat_map (fun p : per_entry => s_faults (snd p)) per').
Proof.
  intros (m & P & F). eapply PM_trans; [exact feq_trans|apply PM_perm; [exact feq_refl|apply Permutation_flat_map_perm; exact P]|].
  clear P. induction F as [|a b la lb [_ (_ & Ff & _)] _ IH]; [apply PM_refl; exact feq_refl|].
  cbn [flat_map]. apply PM_app; assumption.
Qed.

Lemma per_ucalls_perm per per' :
  PM prel per per' ->
  Permutation (flat_map (fun p : per_entry => s_ucalls (snd p)) per) (flat_map (fun p : per_entry => s_ucalls (snd p)) per').
Proof.
  intros (m & P & F). eapply Permutation_trans; [apply Permutation_flat_map_perm; exact P|].
  clear P. induction F as [|a b la lb [_ (_ & _ & U)] _ IH]; [constructor|].
  cbn [flat_map]. apply Permutation_app; assumption.
Qed.

Lemma map_of_per_congr per per' :
  PM prel per per' -> NoDup (keys_of per) -> Forall is_key (keys_of per) ->
  SEQ (map_of_per per) (map_of_per per').
Proof.
  intros HPM Hnd Hk. pose proof (per_faults_PM _ _ HPM) as HF. pose proof (per_ucalls_perm _ _ HPM) as HU.
  unfold map_of_per. cbv zeta. split; [|split; [exact HF|exact HU]]. cbn [s_out].
  destruct (flat_map (fun p : per_entry => s_faults (snd p)) per) eqn:E1;
    destruct (flat_map (fun p : per_entry => s_faults (snd p)) per') eqn:E2; try reflexivity.
  - destruct HPM as (m & P & F). rewrite (ofold_perm per m P Hnd Hk (Some []) I), (ofold_congr m per' F). reflexivity.
  - apply PM_nil_l in HF. discriminate.
  - apply PM_nil_r in HF. discriminate.
Qed.

(** the parsed keys of a well-formed object are distinct map keys *)
Lemma keys_of_members el kp tyname l ms :
  good_keys (map fst ms) ->
  NoDup (keys_of (map (map_member_spec el kp tyname l) ms)) /\ Forall is_key (keys_of (map (map_member_spec el kp tyname l) ms)).
Proof.
  intros [Hnd Hinj]. induction ms as [|[k v] ms IH]; [split; constructor|].
  cbn [map fst] in Hnd, Hinj. inversion Hnd as [|? ? Hni Hnd']; subst.
  destruct IH as [IH1 IH2]; [exact Hnd'|intros kp' k1 k2 a H1 H2; apply Hinj; right; assumption|].
  unfold keys_of in *. cbn [map flat_map]. unfold map_member_spec at 1 3. cbn [fst snd].
  destruct (parse_key kp k) as [ko|pe] eqn:Ep; cbn [fst app]; [|split; assumption].
  split; [|constructor; [eapply parse_key_is_key; exact Ep|exact IH2]].
  constructor; [|exact IH1]. intros Hin. apply in_flat_map in Hin. destruct Hin as (p & Hp & Hko).
  apply in_map_iff in Hp. destruct Hp as ([k' v'] & <- & Hkv'). unfold map_member_spec in Hko. cbn [fst snd] in Hko.
  destruct (parse_key kp k') as [ko'|] eqn:Ep'; cbn [fst] in Hko; [|destruct Hko].
  destruct Hko as [<-|[]]. assert (k = k').
  { apply (Hinj kp k k' ko'); [left; reflexivity|right; apply in_map_iff; exists (k', v'); split; [reflexivity|exact Hkv']|exact Ep|exact Ep']. }
  subst k'. apply Hni. apply in_map_iff. exists (k, v'). split; [reflexivity|exact Hkv'].
Qed.

Lemma s_map_perm el kp tyname ms ms' l :
  Permutation ms ms' -> good_keys (map fst ms) -> SEQ (s_map el kp tyname ms l) (s_map el kp tyname ms' l).
Proof.
  intros HP Hg. rewrite !s_map_per. destruct (keys_of_members el kp tyname l ms Hg) as [H1 H2].
  apply map_of_per_congr; [|exact H1|exact H2]. apply PM_perm; [exact prel_refl|apply Permutation_map; exact HP].
Qed.

Lemma s_map_pointwise el kp tyname ms ms' l :
  Forall2 (fun a b : string * value => fst a = fst b /\ SEQ (el (snd a) (Key (fst a) l)) (el (snd b) (Key (fst a) l))) ms ms' ->
  good_keys (map fst ms) -> SEQ (s_map el kp tyname ms l) (s_map el kp tyname ms' l).
Proof.
  intros HF Hg. rewrite !s_map_per. destruct (keys_of_members el kp tyname l ms Hg) as [H1 H2].
  apply map_of_per_congr; [|exact H1|exact H2]. apply PM_forall2. clear - HF.
  induction HF as [|[k v] [k' v'] la lb [Hk Hs] _ IH]; [constructor|]. cbn [fst snd] in *. subst k'.
  cbn [map]. constructor; [|exact IH]. unfold map_member_spec. cbn [fst snd].
  destruct (parse_key kp k); [split; [reflexivity|exact Hs]|apply prel_refl].
Qed.

(** ** the enum tag *)
Lemma remove_first_perm_self tag ms tv r : remove_first tag ms = Some (tv, r) -> Permutation ms ((tag, tv) :: r).
Proof.
  revert r. induction ms as [|[k v] ms IH]; intros r H; [discriminate|]. cbn [remove_first] in H.
  destruct (String.eqb k tag) eqn:E.
  - inversion H; subst. apply String.eqb_eq in E. subst. reflexivity.
  - destruct (remove_first tag ms) as [[x r']|]; [|discriminate]. inversion H; subst.
    eapply Permutation_trans; [apply perm_skip; apply IH; reflexivity|apply perm_swap].
Qed.

Lemma remove_first_none tag ms : remove_first tag ms = None <-> ~ In tag (map fst ms).
Proof.
  induction ms as [|[k v] ms IH]; cbn [remove_first map fst]; [split; [intros _ []|reflexivity]|].
  destruct (String.eqb k tag) eqn:E.
  - apply String.eqb_eq in E. subst. split; [discriminate|intros H; exfalso; apply H; left; reflexivity].
  - apply String.eqb_neq in E. destruct (remove_first tag ms) as [[x r]|].
    + split; [discriminate|]. intros H. exfalso. destruct IH as [_ IH]. assert (Some (x, r) = None); [|discriminate].
      apply IH. intros Hin. apply H. right. exact Hin.
    + split; [|reflexivity]. intros _ [H|H]; [contradiction|]. destruct IH as [IH _]. apply (IH eq_refl). exact H.
Qed.

Lemma nodup_keys_functional (ms : list (string * value)) k a b :
  NoDup (map fst ms) -> In (k, a) ms -> In (k, b) ms -> a = b.
Proof.
  induction ms as [|[k' v'] ms IH]; intros Hnd Ha Hb; [destruct Ha|]. cbn [map fst] in Hnd. inversion Hnd as [|? ? Hni Hnd']; subst.
  destruct Ha as [Ha|Ha], Hb as [Hb|Hb].
  - congruence.
  - inversion Ha; subst. exfalso. apply Hni. apply in_map_iff. exists (k, b). split; [reflexivity|exact Hb].
  - inversion Hb; subst. exfalso. apply Hni. apply in_map_iff. exists (k, a). split; [reflexivity|exact Ha].
  - apply IH; assumption.
Qed.

Lemma remove_first_perm tag ms ms' :
  Permutation ms ms' -> NoDup (map fst ms) ->
  match remove_first tag ms, remove_first tag ms' with
  | Some (tv, r), Some (tv', r') => tv = tv' /\ Permutation r r' /\ NoDup (map fst r)
  | None, None => True
  | _, _ => False
  end.
Proof.
  intros HP Hnd. destruct (remove_first tag ms) as [[tv r]|] eqn:E1; destruct (remove_first tag ms') as [[tv' r']|] eqn:E2.
  - pose proof (remove_first_perm_self _ _ _ _ E1) as P1. pose proof (remove_first_perm_self _ _ _ _ E2) as P2.
    assert (tv = tv').
    { apply (nodup_keys_functional ms tag); [exact Hnd| |].
      - eapply Permutation_in; [apply Permutation_sym; exact P1|left; reflexivity].
      - eapply Permutation_in; [apply Permutation_sym; eapply Permutation_trans; [exact HP|exact P2]|left; reflexivity]. }
    subst tv'. split; [reflexivity|]. split.
    + apply Permutation_cons_inv with (a := (tag, tv)).
      eapply Permutation_trans; [apply Permutation_sym; exact P1|]. eapply Permutation_trans; [exact HP|exact P2].
    + assert (Hn : NoDup (map fst ((tag, tv) :: r))) by (eapply Permutation_NoDup; [apply Permutation_map; exact P1|exact Hnd]).
      cbn [map] in Hn. inversion Hn; assumption.
  - apply remove_first_none in E2. apply E2. eapply Permutation_in; [apply Permutation_map; exact HP|].
    pose proof (remove_first_perm_self _ _ _ _ E1) as P1.
    eapply Permutation_in; [apply Permutation_sym; apply Permutation_map; exact P1|left; reflexivity].
  - apply remove_first_none in E1. apply E1. eapply Permutation_in; [apply Permutation_sym; apply Permutation_map; exact HP|].
    pose proof (remove_first_perm_self _ _ _ _ E2) as P2.
    eapply Permutation_in; [apply Permutation_sym; apply Permutation_map; exact P2|left; reflexivity].
  - exact I.
Qed.

Lemma remove_first_pointwise (Q : value -> value -> Prop) tag ms ms' :
  Forall2 (fun a b : string * value => fst a = fst b /\ Q (snd a) (snd b)) ms ms' ->
  match remove_first tag ms, remove_first tag ms' with
  | Some (tv, r), Some (tv', r') => Q tv tv' /\ Forall2 (fun a b : string * value => fst a = fst b /\ Q (snd a) (snd b)) r r'
  | None, None => True
  | _, _ => False
  end.
Proof.
  induction 1 as [|[k v] [k' v'] la lb [Hk Hq] HF IH]; [exact I|]. cbn [fst snd] in *. subst k'. cbn [remove_first].
  destruct (String.eqb k tag); [split; assumption|].
  destruct (remove_first tag la) as [[x r]|], (remove_first tag lb) as [[x' r']|]; try contradiction; [|exact I].
  destruct IH as [Hx Hr]. split; [exact Hx|]. constructor; [split; [reflexivity|exact Hq]|exact Hr].
Qed.

(** ** serde_json::Value objects and arrays *)
Lemma s_json_map_unfold ms l :
  s_json (VMap ms) l
  = s_collect (map (fun kx : string * value => s_json (snd kx) (Key (fst kx) l)) ms)
              (fun os => OJson (VMap (fold_left (fun m ko => jmap_insert (fst ko) (unjson (snd ko)) m) (combine (map fst ms) os) []))).
Proof.
  cbn [s_json]. f_equal. induction ms as [|[k x] ms IH]; [reflexivity|]. cbn [map fst snd]. rewrite IH. reflexivity.
Qed.

Lemma s_json_seq_unfold vs l :
  s_json (VSeq vs) l
  = s_collect (map (fun iv : N * value => s_json (snd iv) (Index (fst iv) l)) (indexed vs 0))
              (fun os => OJson (VSeq (map unjson os))).
Proof.
  cbn [s_json]. f_equal. generalize 0%N. induction vs as [|x vs IH]; intros i; [reflexivity|]. cbn [indexed map fst snd]. rewrite IH. reflexivity.
Qed.

Definition val_or (o : option out) : out := match o with Some x => x | None => ONone end.

Lemma all_some_combine {A} (f : A -> option out) (k : A -> string) l os :
  all_some (map f l) = Some os -> combine (map k l) os = map (fun x => (k x, val_or (f x))) l.
Proof.
  revert os. induction l as [|x l IH]; intros os H; [reflexivity|]. cbn [map all_some] in H.
  destruct (f x) as [o|] eqn:E; [|discriminate]. destruct (all_some (map f l)) as [os'|]; [|discriminate].
  inversion H; subst. cbn [map combine]. rewrite E, (IH os' eq_refl). reflexivity.
Qed.

Lemma all_some_iff {A} (l : list (option A)) : (exists os, all_some l = Some os) <-> Forall (fun o => o <> None) l.
Proof.
  induction l as [|[x|] l IH]; cbn [all_some].
  - split; [constructor|exists []; reflexivity].
  - split.
    + intros [os H]. constructor; [discriminate|]. apply IH. destruct (all_some l) as [xs|]; [exists xs; reflexivity|discriminate].
    + intros H. inversion H; subst. destruct IH as [_ IH]. destruct (IH H3) as [xs ->]. exists (x :: xs). reflexivity.
  - split; [intros [os H]; discriminate|]. intros H. inversion H; subst. contradiction.
Qed.

Lemma jfold_ins_all (kos : list (string * out)) m :
  fold_left (fun m ko => jmap_insert (fst ko) (unjson (snd ko)) m) kos m
  = ins_all string value String.compare (map (fun ko => (fst ko, unjson (snd ko))) kos) m.
Proof.
  revert m. induction kos as [|ko kos IH]; intros m; [reflexivity|]. cbn [fold_left map]. rewrite IH.
  unfold ins_all. cbn [fold_left fst snd]. rewrite jmap_insert_ins. reflexivity.
Qed.

Lemma s_json_map_perm ms ms' l :
  Permutation ms ms' -> NoDup (map fst ms) -> SEQ (s_json (VMap ms) l) (s_json (VMap ms') l).
Proof.
  intros HP Hnd. rewrite !s_json_map_unfold. unfold s_collect.
  set (g := fun kx : string * value => s_json (snd kx) (Key (fst kx) l)).
  assert (HF : Permutation (flat_map s_faults (map g ms)) (flat_map s_faults (map g ms')))
    by (apply Permutation_flat_map_perm; apply Permutation_map; exact HP).
  assert (HU : Permutation (flat_map s_ucalls (map g ms)) (flat_map s_ucalls (map g ms')))
    by (apply Permutation_flat_map_perm; apply Permutation_map; exact HP).
  split; [|split; [apply PM_perm; [exact feq_refl|exact HF]|exact HU]]. cbn [s_out].
  destruct (flat_map s_faults (map g ms)) eqn:E1; destruct (flat_map s_faults (map g ms')) eqn:E2;
    try reflexivity; [|apply Permutation_nil in HF; discriminate|apply Permutation_sym, Permutation_nil in HF; discriminate].
  rewrite !map_map.
  destruct (all_some (map (fun x => s_out (g x)) ms)) as [os|] eqn:A1; destruct (all_some (map (fun x => s_out (g x)) ms')) as [os'|] eqn:A2.
  - cbn [option_map]. rewrite (all_some_combine _ fst _ _ A1), (all_some_combine _ fst _ _ A2), !jfold_ins_all. do 3 f_equal.
    apply ins_all_perm.
    + intros a b; apply String.compare_antisym.
    + exact str_lt_trans.
    + exact str_cmp_eq_l.
    + intros a b H. apply String.compare_eq_iff. exact H.
    + apply Permutation_map. apply Permutation_map. exact HP.
    + rewrite !map_map. cbn [fst]. exact Hnd.
    + exact I.
  - exfalso. assert (H : exists os, all_some (map (fun x => s_out (g x)) ms') = Some os).
    { apply all_some_iff. eapply Permutation_Forall; [apply Permutation_map; exact HP|]. apply all_some_iff. exists os. exact A1. }
    destruct H as [? H]. congruence.
  - exfalso. assert (H : exists os, all_some (map (fun x => s_out (g x)) ms) = Some os).
    { apply all_some_iff. eapply Permutation_Forall; [apply Permutation_map; apply Permutation_sym; exact HP|]. apply all_some_iff. exists os'. exact A2. }
    destruct H as [? H]. congruence.
  - reflexivity.
Qed.
