(** Direct consequences of the interpreter's definition used by C06, C09, C10, C11. *)
From Deserr Require Import Base Pointer Kinds Value Prog Utf8 Scalars Types Deser Monitors.
From Deserr.proofs Require Import ProgProofs LeavesProofs C12Proofs.

Notation next_id s := (N.of_nat (List.length s)).

(** ** C06 *)
Lemma array_bad_len script a n t vs l s :
  N.of_nat (List.length vs) <> n ->
  run script (deser (TArray n t) a (VSeq vs) l) s
  = (RErr (next_id s), s ++ [CError a None (BadSequenceLen vs n) l]).
Proof.
  intros H. cbn [deser]. destruct (N.eqb_spec (N.of_nat (List.length vs)) n); [contradiction|reflexivity].
Qed.

Lemma tuple2_bad_len script a ta tb vs l s :
  List.length vs <> 2%nat ->
  run script (deser (TTuple2 ta tb) a (VSeq vs) l) s
  = (RErr (next_id s), s ++ [CError a None (BadSequenceLen vs 2) l]).
Proof.
  intros H. cbn [deser]. destruct vs as [|x [|y [|z r]]]; try reflexivity. exfalso. apply H. reflexivity.
Qed.

Lemma tuple3_bad_len script a ta tb tc vs l s :
  List.length vs <> 3%nat ->
  run script (deser (TTuple3 ta tb tc) a (VSeq vs) l) s
  = (RErr (next_id s), s ++ [CError a None (BadSequenceLen vs 3) l]).
Proof.
  intros H. cbn [deser]. destruct vs as [|x [|y [|z [|w r]]]]; try reflexivity. exfalso. apply H. reflexivity.
Qed.

Lemma option_null script a t l s :
  run script (deser (TOption t) a VNull l) s = (ROk ONone, s).
Proof. reflexivity. Qed.

Lemma option_some a t v l : v <> VNull -> deser (TOption t) a v l = map_ok (deser t a v l) OSome.
Proof. intros H. destruct v; try reflexivity. contradiction. Qed.

Lemma box_transparent a t v l : deser (TBox t) a v l = deser t a v l.
Proof. reflexivity. Qed.

(** an Ok sequence has exactly one output per payload element, in order, each the Ok result of
    its own element at its own index *)
Definition elem_ok script (runel : value -> vpr -> prog res) (l : vpr) (iv : N * value) (o : out) : Prop :=
  exists s1 s2, run script (runel (snd iv) (Index (fst iv) l)) s1 = (ROk o, s2).

Fixpoint indexed_from {A} (l : list A) (i : N) : list (N * A) :=
  match l with [] => [] | x :: r => (i, x) :: indexed_from r (N.succ i) end.

Lemma seq_loop_ok script runel a l fin :
  forall vs idx acc outs_rev s r s',
    run script (seq_loop runel a l fin vs idx acc outs_rev) s = (r, s') ->
    (exists e, r = RErr e) \/ (exists site, r = RPanic site /\ forall os, fin os <> RPanic site -> False)
    \/ (acc = None /\ exists os, r = fin (rev outs_rev ++ os)
                                  /\ Forall2 (elem_ok script runel l) (indexed_from vs idx) os)
    \/ (exists site, r = RPanic site).
Proof.
  induction vs as [|v vs IH]; intros idx acc outs_rev s r s' H; cbn [seq_loop] in H.
  - cbn [run] in H. inversion H; subst. destruct acc as [e|].
    + left. eexists; reflexivity.
    + right. right. left. split; [reflexivity|]. exists []. rewrite app_nil_r. split; [reflexivity|constructor].
  - rewrite run_bind in H. destruct (run script (runel v (Index idx l)) s) as [rc s1] eqn:Ec.
    destruct rc as [o|e|site].
    + apply IH in H. destruct H as [H|[H|[H|H]]]; [left; exact H|right; left; exact H| |right; right; right; exact H].
      destruct H as [Hacc [os [Hr Hall]]]. right. right. left. split; [exact Hacc|].
      exists (o :: os). split.
      * rewrite Hr. cbn [rev]. rewrite <- app_assoc. reflexivity.
      * cbn [indexed_from]. constructor; [|exact Hall]. exists s, s1. exact Ec.
    + cbn [absorb run] in H. destruct (script (next_id s1)).
      * apply IH in H. destruct H as [H|[H|[H|H]]]; [left; exact H|right; left; exact H| |right; right; right; exact H].
        destruct H as [Hc _]. discriminate.
      * cbn [run] in H. inversion H; subst. left. eexists; reflexivity.
    + cbn [run] in H. inversion H; subst. right. right. right. eexists; reflexivity.
Qed.

Lemma vec_elements script a t vs l s os s' :
  run script (deser (TVec t) a (VSeq vs) l) s = (ROk (OList os), s') ->
  Forall2 (elem_ok script (deser t a) l) (indexed_from vs 0) os.
Proof.
  intros H. cbn [deser] in H. apply seq_loop_ok in H.
  destruct H as [[e He]|[[site [Hs _]]|[[_ [os' [Hr Hall]]]|[site Hs]]]]; try discriminate.
  cbn [rev app] in Hr. inversion Hr; subst. exact Hall.
Qed.

Lemma Forall2_length' {A B} (R : A -> B -> Prop) l1 l2 : Forall2 R l1 l2 -> List.length l1 = List.length l2.
Proof. induction 1; cbn; congruence. Qed.

Lemma indexed_from_length {A} (l : list A) i : List.length (indexed_from l i) = List.length l.
Proof. revert i. induction l; intros i; cbn; [reflexivity|]. rewrite IHl. reflexivity. Qed.

Lemma vec_same_length script a t vs l s os s' :
  run script (deser (TVec t) a (VSeq vs) l) s = (ROk (OList os), s') -> List.length os = List.length vs.
Proof.
  intros H. apply vec_elements in H. apply Forall2_length' in H.
  rewrite indexed_from_length in H. symmetry. exact H.
Qed.

(** maps: once the accumulator holds an error the call fails *)
Definition is_err (r : res) : Prop := match r with RErr _ => True | _ => False end.

Lemma map_loop_acc_fails runel kp tyname a l :
  (forall v l', Leaves np (runel v l')) ->
  forall ms e res_map, Leaves is_err (map_loop runel kp tyname a l ms (Some e) res_map).
Proof.
  intros Hel. induction ms as [|[k v] ms IH]; intros e res_map; cbn [map_loop].
  - constructor. exact I.
  - destruct (parse_key kp k) as [ko|pe].
    + apply leaves_bind with (okp := np); [apply Hel|].
      intros [o|e'|site] Hn; [apply IH| |destruct Hn].
      apply Leaves_call; [reflexivity|]. intros i ans. destruct ans; [apply IH|constructor; exact I].
    + apply Leaves_call; [reflexivity|]. intros i ans. destruct ans; [apply IH|constructor; exact I].
Qed.

Lemma map_loop_bad_key_fails runel kp tyname a l :
  (forall v l', Leaves np (runel v l')) ->
  forall ms acc res_map,
    (exists k v e, In (k, v) ms /\ parse_key kp k = inr e) ->
    Leaves is_err (map_loop runel kp tyname a l ms acc res_map).
Proof.
  intros Hel. induction ms as [|[k v] ms IH]; intros acc res_map (k0 & v0 & e0 & Hin & Hp); [destruct Hin|].
  cbn [map_loop]. destruct Hin as [Heq|Hin].
  - inversion Heq; subst. rewrite Hp.
    apply Leaves_call; [reflexivity|]. intros i ans.
    destruct ans; [apply map_loop_acc_fails; exact Hel|constructor; exact I].
  - assert (Hex : exists k v e, In (k, v) ms /\ parse_key kp k = inr e) by (exists k0, v0, e0; auto).
    destruct (parse_key kp k) as [ko|pe].
    + apply leaves_bind with (okp := np); [apply Hel|].
      intros [o|e'|site] Hn; [apply IH; exact Hex| |destruct Hn].
      apply Leaves_call; [reflexivity|]. intros i ans. destruct ans; [apply IH; exact Hex|constructor; exact I].
    + apply Leaves_call; [reflexivity|]. intros i ans. destruct ans; [apply IH; exact Hex|constructor; exact I].
Qed.

Lemma map_bad_key_fails script a kp n t ms l s k v e :
  In (k, v) ms -> parse_key kp k = inr e ->
  is_err (fst (run script (deser (TMap kp n t) a (VMap ms) l) s)).
Proof.
  intros Hin Hp. cbn [deser]. apply leaves_sound.
  apply map_loop_bad_key_fails; [intros; apply deser_np|]. exists k, v, e. auto.
Qed.

(** ** C09: without deny_unknown_fields unknown members do not exist *)
Definition known (fs : list rfield) (kv : string * value) : bool :=
  match find_field fs (fst kv) 0 with Some _ => true | None => false end.

Lemma entries_ignore_unknown script a fs keys l :
  forall ms acc sts s,
    run script (entries_loop a fs DenyNo keys l ms acc sts) s
    = run script (entries_loop a fs DenyNo keys l (filter (known fs) ms) acc sts) s.
Proof.
  induction ms as [|[k v] ms IH]; intros acc sts s; [reflexivity|].
  cbn [filter]. unfold known at 1. cbn [fst].
  destruct (find_field fs k 0) as [[i f]|] eqn:E.
  - cbn [entries_loop]. rewrite E. rewrite !run_bind.
    destruct (run script (field_entry a f i k v l acc sts) s) as [so s1].
    destruct so as [acc' sts'|r]; [apply IH|reflexivity].
  - cbn [entries_loop]. rewrite E. rewrite run_bind. cbn [unknown_key run]. apply IH.
Qed.

Lemma run_fields_ignore_unknown script a fs sk mk ms l s :
  run script (run_fields a fs sk DenyNo mk ms l) s
  = run script (run_fields a fs sk DenyNo mk (filter (known fs) ms) l) s.
Proof.
  unfold run_fields. rewrite !run_bind. rewrite entries_ignore_unknown. reflexivity.
Qed.

(** with the attribute, a member whose key matches no field is reported with exactly the list of
    the fields' keys, at the container's location *)
Lemma entries_deny_step a fs keys l k v ms acc sts :
  find_field fs k 0 = None ->
  entries_loop a fs DenyDefault keys l ((k, v) :: ms) acc sts
  = bind (report a acc (UnknownKey k keys) l (fun acc' => Ret (SGo acc' sts)) (fun i => Ret (SStop (RErr i))))
         (fun so => match so with
                    | SGo acc' sts' => entries_loop a fs DenyDefault keys l ms acc' sts'
                    | SStop r => Ret (SStop r)
                    end).
Proof. intros E. cbn [entries_loop]. rewrite E. reflexivity. Qed.

(** ** C10 *)
Lemma find_unit_some vs s ident : find_unit vs s = Some ident -> In (ident, s) vs.
Proof.
  induction vs as [|[i k] vs IH]; [discriminate|]. cbn [find_unit].
  destruct (String.eqb_spec k s) as [->|Hne].
  - intros H. inversion H; subst. left; reflexivity.
  - intros H. right. apply IH. exact H.
Qed.

Lemma find_unit_none vs s : find_unit vs s = None <-> ~ In s (map snd vs).
Proof.
  induction vs as [|[i k] vs IH]; cbn [find_unit map snd In]; [tauto|].
  destruct (String.eqb_spec k s) as [->|Hne].
  - split; [discriminate|]. intros H. exfalso. apply H. left; reflexivity.
  - rewrite IH. tauto.
Qed.

Lemma unit_enum_string script a vs s l st :
  run script (run_unit_enum a vs (VStr s) l) st =
  match find_unit vs s with
  | Some ident => (ROk (OVariant ident []), st)
  | None => (RErr (next_id st), st ++ [CError a None (UnknownValue s (map snd vs)) l])
  end.
Proof. unfold run_unit_enum. destruct (find_unit vs s); reflexivity. Qed.

Lemma unit_enum_non_string script a vs v l st :
  (forall s, v <> VStr s) ->
  run script (run_unit_enum a vs v l) st
  = (RErr (next_id st), st ++ [CError a None (IncorrectValueKind v [KString]) l]).
Proof. intros H. destruct v; try reflexivity. exfalso. apply (H s). reflexivity. Qed.

Lemma remove_first_none tag ms : remove_first tag ms = None <-> lookup_key tag ms = None.
Proof.
  induction ms as [|[k v] ms IH]; cbn [remove_first lookup_key]; [tauto|].
  destruct (String.eqb k tag); [split; discriminate|].
  destruct (remove_first tag ms) as [[x r]|]; [|tauto].
  split; [discriminate|]. intros H. apply IH in H. discriminate.
Qed.

Lemma remove_first_some tag ms v rest :
  remove_first tag ms = Some (v, rest) -> lookup_key tag ms = Some v.
Proof.
  revert rest. induction ms as [|[k x] ms IH]; intros rest; cbn [remove_first lookup_key]; [discriminate|].
  destruct (String.eqb k tag); [intros H; inversion H; reflexivity|].
  destruct (remove_first tag ms) as [[y r]|]; [|discriminate].
  intros H. inversion H; subst. apply (IH r). reflexivity.
Qed.

Lemma tagged_missing script a tag vs ms l st :
  lookup_key tag ms = None ->
  run script (run_tagged a tag vs (VMap ms) l) st
  = (RErr (next_id st), st ++ [CError a None (MissingField tag) l]).
Proof. intros H. unfold run_tagged. apply remove_first_none in H. rewrite H. reflexivity. Qed.

Lemma tagged_non_string script a tag vs ms l st tv rest :
  remove_first tag ms = Some (tv, rest) -> (forall s, tv <> VStr s) ->
  run script (run_tagged a tag vs (VMap ms) l) st
  = (RErr (next_id st), st ++ [CError a None (IncorrectValueKind tv [KString]) (Key tag l)]).
Proof.
  intros H Hn. unfold run_tagged. rewrite H. destruct tv; try reflexivity. exfalso. apply (Hn s). reflexivity.
Qed.

Lemma tagged_unknown script a tag vs ms l st s rest :
  remove_first tag ms = Some (VStr s, rest) -> find_variant vs s = None ->
  run script (run_tagged a tag vs (VMap ms) l) st
  = (RErr (next_id st), st ++ [CError a None (Unexpected "Incorrect tag value") l]).
Proof. intros H Hf. unfold run_tagged. rewrite H, Hf. reflexivity. Qed.

Lemma tagged_selects a tag vs ms l s rest rv :
  remove_first tag ms = Some (VStr s, rest) -> find_variant vs s = Some rv ->
  run_tagged a tag vs (VMap ms) l =
  match rv_data rv with
  | None => Ret (ROk (OVariant (rv_ident rv) []))
  | Some (fs, sk, d) => run_fields a fs sk d (OVariant (rv_ident rv)) rest l
  end.
Proof. intros H Hf. unfold run_tagged. rewrite H, Hf. reflexivity. Qed.

Lemma find_variant_first vs s rv :
  find_variant vs s = Some rv ->
  exists pre post, vs = pre ++ rv :: post /\ rv_key rv = s /\ Forall (fun x => rv_key x <> s) pre.
Proof.
  induction vs as [|x vs IH]; [discriminate|]. cbn [find_variant].
  destruct (String.eqb_spec (rv_key x) s) as [He|Hne].
  - intros H. inversion H; subst. exists [], vs. repeat split. constructor.
  - intros H. destruct (IH H) as (pre & post & -> & Hk & Hall).
    exists (x :: pre), post. repeat split; [exact Hk|constructor; assumption].
Qed.

(** ** C11 *)
Lemma run_and_then script p f s :
  run script (and_then p f) s =
  match run script p s with
  | (ROk o, s1) => run script (f o) s1
  | (r, s1) => (r, s1)
  end.
Proof.
  unfold and_then. rewrite run_bind. destruct (run script p s) as [[o|e|site] s1]; reflexivity.
Qed.

(** a container-level `from`: the function runs exactly once when the intermediate value
    deserialized, with that value, and never otherwise; what it returns is what is validated
    and returned *)
Lemma from_container script a inter fn val v l s :
  run script (deser (TFrom inter fn val) a v l) s =
  match run script (deser inter a v l) s with
  | (ROk o, s1) => run script (validate a val l (OFn fn o)) (s1 ++ [CUser fn [AOut o]])
  | (r, s1) => (r, s1)
  end.
Proof. cbn [deser]. rewrite run_and_then. destruct (run script (deser inter a v l) s) as [[o|e|site] s1]; reflexivity. Qed.

Lemma try_from_container script a inter fn val v l s :
  run script (deser (TTryFrom inter fn val) a v l) s =
  match run script (deser inter a v l) s with
  | (ROk o, s1) =>
    let s2 := s1 ++ [CUser fn [AOut o]] in
    if ufail o then (RErr (next_id s2), s2 ++ [CMergeU a None (fn, [AOut o]) l])
    else run script (validate a val l (OFn fn o)) s2
  | (r, s1) => (r, s1)
  end.
Proof.
  cbn [deser]. rewrite run_and_then. destruct (run script (deser inter a v l) s) as [[o|e|site] s1]; try reflexivity.
  rewrite run_user_call. destruct (ufail o); reflexivity.
Qed.

Lemma validate_run script a val l o s :
  run script (validate a val l o) s =
  match val with
  | None => (ROk o, s)
  | Some fn =>
    let args := [AOut o; ALoc (to_owned l)] in
    let s1 := s ++ [CUser fn args] in
    if ufail o then (RErr (next_id s1), s1 ++ [CMergeU a None (fn, args) l]) else (ROk o, s1)
  end.
Proof. unfold validate. destruct val as [fn|]; [|reflexivity]. rewrite run_user_call. destruct (ufail o); reflexivity. Qed.
