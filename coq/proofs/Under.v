(** What lies under an error value, generically: [under own tr fuel id] collects [own c] for
    every call [c] of the error tree rooted at call [id]. [Spec.reports_under] and
    [Monitors.locs_under] are instances. Fuel and later calls do not matter for well-formed traces. *)
From Deserr Require Import Base Pointer Kinds Value Prog Spec Monitors.
From Deserr.proofs Require Import HeldProofs.
Local Open Scope list_scope.

Section Under.
  Context {A : Type} (own : call -> list A).

  Fixpoint under (tr : list call) (fuel : nat) (id : N) : list A :=
    match fuel with
    | O => []
    | S f =>
      let self_of s := match s with Some x => under tr f x | None => [] end in
      match nth_opt tr (N.to_nat id) with
      | Some (CError a s k l) => own (CError a s k l) ++ self_of s
      | Some (CMerge a s oa o l) => own (CMerge a s oa o l) ++ under tr f o ++ self_of s
      | Some (CMergeU a s u l) => own (CMergeU a s u l) ++ self_of s
      | _ => []
      end
    end.

  Lemma under_fuel tr : wf_refs tr ->
    forall b id, (N.to_nat id < b)%nat ->
    forall f1 f2, (N.to_nat id < f1)%nat -> (N.to_nat id < f2)%nat -> under tr f1 id = under tr f2 id.
  Proof.
    intros Hwf. induction b as [|b IH]; intros id Hb f1 f2 H1 H2; [lia|].
    destruct f1 as [|f1]; [lia|]. destruct f2 as [|f2]; [lia|]. cbn [under].
    destruct (nth_opt tr (N.to_nat id)) as [c|] eqn:En; [|reflexivity].
    assert (Hu : forall u, In u (call_uses c) -> under tr f1 u = under tr f2 u).
    { intros u Hin. pose proof (Hwf _ _ En u Hin) as Hlt. apply IH; lia. }
    destruct c as [a s k l|a s oalg o l|a s u l|fn args]; cbn [call_uses] in Hu.
    - destruct s as [x|]; [rewrite (Hu x (or_introl eq_refl))|]; reflexivity.
    - rewrite (Hu o) by (apply in_or_app; right; left; reflexivity).
      destruct s as [x|]; [rewrite (Hu x) by (left; reflexivity)|]; reflexivity.
    - destruct s as [x|]; [rewrite (Hu x (or_introl eq_refl))|]; reflexivity.
    - reflexivity.
  Qed.

  Lemma under_extend s ext : wf_refs s ->
    forall f id, (N.to_nat id < List.length s)%nat -> under (s ++ ext) f id = under s f id.
  Proof.
    intros Hwf. induction f as [|f IH]; intros id Hid; [reflexivity|]. cbn [under].
    rewrite nth_opt_app_l by exact Hid.
    destruct (nth_opt s (N.to_nat id)) as [c|] eqn:En; [|reflexivity].
    assert (Hu : forall u, In u (call_uses c) -> under (s ++ ext) f u = under s f u).
    { intros u Hin. pose proof (Hwf _ _ En u Hin) as Hlt. apply IH. lia. }
    destruct c as [a s0 k l|a s0 oalg o l|a s0 u l|fn args]; cbn [call_uses] in Hu.
    - destruct s0 as [x|]; [rewrite (Hu x (or_introl eq_refl))|]; reflexivity.
    - rewrite (Hu o) by (apply in_or_app; right; left; reflexivity).
      destruct s0 as [x|]; [rewrite (Hu x) by (left; reflexivity)|]; reflexivity.
    - destruct s0 as [x|]; [rewrite (Hu x (or_introl eq_refl))|]; reflexivity.
    - reflexivity.
  Qed.

  (** the full-fuel reading, stable under extension of the trace *)
  Definition under_all (s : list call) (id : N) : list A := under s (List.length s) id.

  Lemma under_all_extend s ext id : wf_refs s -> (N.to_nat id < List.length s)%nat ->
    under_all (s ++ ext) id = under_all s id.
  Proof.
    intros Hwf Hid. unfold under_all. rewrite under_extend by assumption.
    apply (under_fuel s Hwf (S (N.to_nat id))); [lia| |exact Hid]. rewrite app_length. lia.
  Qed.

  (** the newest call *)
  Lemma under_all_last s c :
    wf_refs (s ++ [c]) ->
    under_all (s ++ [c]) (N.of_nat (List.length s))
    = match c with
      | CError _ sf _ _ | CMergeU _ sf _ _ => own c ++ match sf with Some x => under_all s x | None => [] end
      | CMerge _ sf _ o _ => own c ++ under_all s o ++ match sf with Some x => under_all s x | None => [] end
      | CUser _ _ => []
      end.
  Proof.
    intros Hwf. unfold under_all at 1. rewrite app_length. cbn [List.length]. rewrite Nat.add_1_r. cbn [under].
    rewrite Nat2N.id, nth_opt_app_exact.
    assert (Hwfs : wf_refs s).
    { intros n c0 Hn u Hu. apply (Hwf n c0); [|exact Hu]. rewrite nth_opt_app_l; [exact Hn|]. eapply nth_opt_lt; exact Hn. }
    assert (Hu : forall u, In u (call_uses c) -> under (s ++ [c]) (List.length s) u = under_all s u).
    { intros u Hin. assert (Hlt : (N.to_nat u < List.length s)%nat) by (apply (Hwf (List.length s) c); [apply nth_opt_app_exact|exact Hin]).
      unfold under_all. apply under_extend; assumption. }
    destruct c as [a sf k l|a sf oalg o l|a sf u l|fn args]; cbn [call_uses] in Hu.
    - destruct sf as [x|]; [rewrite (Hu x (or_introl eq_refl))|]; reflexivity.
    - rewrite (Hu o) by (apply in_or_app; right; left; reflexivity).
      destruct sf as [x|]; [rewrite (Hu x) by (left; reflexivity)|]; reflexivity.
    - destruct sf as [x|]; [rewrite (Hu x (or_introl eq_refl))|]; reflexivity.
    - reflexivity.
  Qed.
End Under.

(** the locations under an error value, as an instance *)
Definition own_loc (c : call) : list vpr :=
  match c with CError _ _ _ l | CMerge _ _ _ _ l | CMergeU _ _ _ l => [l] | CUser _ _ => [] end.

Lemma locs_under_is_under tr : forall fuel id, locs_under tr fuel id = under own_loc tr fuel id.
Proof.
  induction fuel as [|f IH]; intros id; [reflexivity|]. cbn [locs_under under].
  destruct (nth_opt tr (N.to_nat id)) as [[a s k l|a s oa o l|a s u l|fn args]|]; cbn [own_loc app]; rewrite ?IH; try reflexivity;
    destruct s; rewrite ?IH; reflexivity.
Qed.
