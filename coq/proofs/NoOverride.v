(** C16, "never silently drops or overrides what was written": when the attributes of a container,
    variant or field are accepted, every single attribute item that was written is present, with
    the value that was written, in the merged attributes the expansion is generated from. *)
From Deserr Require Import Base Pointer Kinds Value Scalars Types Derive.
Local Open Scope list_scope.

Definition ole {A} (a b : option A) : Prop := forall x, a = Some x -> b = Some x.
Lemma ole_refl {A} (a : option A) : ole a a.
Proof. intros x H. exact H. Qed.
Lemma ole_trans {A} (a b c : option A) : ole a b -> ole b c -> ole a c.
Proof. intros H1 H2 x H. apply H2, H1, H. Qed.
Lemma ole_none {A} (b : option A) : ole None b.
Proof. intros x H. discriminate. Qed.

Lemma merge1_le {A} (self other r : option A) : merge1 self other = Some r -> ole self r /\ ole other r.
Proof.
  unfold merge1. destruct other as [x|]; [destruct self as [y|]; cbn; [discriminate|]|]; intros H; inversion H; subst.
  - split; [apply ole_none|apply ole_refl].
  - split; [apply ole_refl|apply ole_none].
Qed.

Lemma fold_none {A B} (f : A -> B -> option A) (l : list B) :
  fold_left (fun acc x => match acc with None => None | Some a => f a x end) l None = None.
Proof. induction l; [reflexivity|exact IHl]. Qed.

(** ** containers *)
Section Containers.
  Context {T : Type}.

  Definition cle (a b : cattrs T) : Prop :=
    ole (ca_rename_all a) (ca_rename_all b) /\ ole (ca_err a) (ca_err b) /\ ole (ca_tag a) (ca_tag b)
    /\ ole (ca_deny a) (ca_deny b) /\ ole (ca_from a) (ca_from b) /\ ole (ca_try_from a) (ca_try_from b)
    /\ ole (ca_validate a) (ca_validate b).

  Lemma cle_refl a : cle a a.
  Proof. repeat split; apply ole_refl. Qed.
  Lemma cle_trans a b c : cle a b -> cle b c -> cle a c.
  Proof.
    intros (A1 & A2 & A3 & A4 & A5 & A6 & A7) (B1 & B2 & B3 & B4 & B5 & B6 & B7).
    repeat split; eapply ole_trans; eassumption.
  Qed.
  Lemma cle_default a : cle ca_default a.
  Proof. repeat split; apply ole_none. Qed.

  Lemma conv_le (sf st of_ : option (T * N)) r :
    (match of_ with
     | None => Some sf
     | Some x => if is_some sf || is_some st then None else Some (Some x)
     end) = Some r -> ole sf r /\ ole of_ r.
  Proof.
    destruct of_ as [x|]; [destruct (is_some sf || is_some st) eqn:E; [discriminate|]|]; intros H; inversion H; subst.
    - split; [|apply ole_refl]. destruct sf; [discriminate|apply ole_none].
    - split; [apply ole_refl|apply ole_none].
  Qed.

  Lemma merge_cattrs_le (this o r : cattrs T) : merge_cattrs this o = Some r -> cle this r /\ cle o r.
  Proof.
    unfold merge_cattrs.
    destruct (merge1 (ca_rename_all this) (ca_rename_all o)) as [ra|] eqn:E1; [|discriminate].
    destruct (merge1 (ca_err this) (ca_err o)) as [er|] eqn:E2; [|discriminate].
    destruct (merge1 (ca_tag this) (ca_tag o)) as [tg|] eqn:E3; [|discriminate].
    destruct (merge1 (ca_deny this) (ca_deny o)) as [dn|] eqn:E4; [|discriminate].
    match goal with |- match ?X with _ => _ end = _ -> _ => destruct X as [fr|] eqn:E5; [|discriminate] end.
    match goal with |- match ?X with _ => _ end = _ -> _ => destruct X as [tf|] eqn:E6; [|discriminate] end.
    destruct (merge1 (ca_validate this) (ca_validate o)) as [vl|] eqn:E7; [|discriminate].
    intros H. inversion H; subst r. clear H.
    apply merge1_le in E1, E2, E3, E4, E7. apply conv_le in E5. apply conv_le in E6.
    unfold cle. cbn [ca_rename_all ca_err ca_tag ca_deny ca_from ca_try_from ca_validate]. tauto.
  Qed.

  Lemma cgroup_from_le this g r :
    fold_left (fun acc a => match acc with
                            | None => None
                            | Some this => match single_cattr a with
                                           | None => None
                                           | Some o => merge_cattrs this o
                                           end
                            end) g (Some this) = Some r ->
    cle this r /\ forall a o, In a g -> single_cattr a = Some o -> cle o r.
  Proof.
    revert this. induction g as [|a g IH]; intros this H; cbn [fold_left] in H.
    - inversion H; subst. split; [apply cle_refl|intros a o []].
    - destruct (single_cattr a) as [o|] eqn:Es; [|rewrite fold_none in H; discriminate].
      destruct (merge_cattrs this o) as [t1|] eqn:Em; [|rewrite fold_none in H; discriminate].
      destruct (merge_cattrs_le _ _ _ Em) as [L1 L2]. destruct (IH t1 H) as [L3 L4].
      split; [eapply cle_trans; eassumption|].
      intros a' o' [<-|Hin] Ho'; [rewrite Es in Ho'; inversion Ho'; subst; eapply cle_trans; eassumption|eapply L4; eassumption].
  Qed.

  Lemma cgroup_le g r : parse_cgroup g = Some r -> forall a o, In a g -> single_cattr a = Some o -> cle o r.
  Proof.
    unfold parse_cgroup. destruct g as [|a g]; [discriminate|]. intros H. apply (proj2 (cgroup_from_le ca_default (a :: g) r H)).
  Qed.

  Lemma read_from_le this gs r :
    fold_left (fun acc g => match acc with
                            | None => None
                            | Some this => match parse_cgroup g with
                                           | None => None
                                           | Some o => merge_cattrs this o
                                           end
                            end) gs (Some this) = Some r ->
    cle this r /\ forall g a o, In g gs -> In a g -> single_cattr a = Some o -> cle o r.
  Proof.
    revert this. induction gs as [|g gs IH]; intros this H; cbn [fold_left] in H.
    - inversion H; subst. split; [apply cle_refl|intros g a o []].
    - destruct (parse_cgroup g) as [og|] eqn:Eg; [|rewrite fold_none in H; discriminate].
      destruct (merge_cattrs this og) as [t1|] eqn:Em; [|rewrite fold_none in H; discriminate].
      destruct (merge_cattrs_le _ _ _ Em) as [L1 L2]. destruct (IH t1 H) as [L3 L4].
      split; [eapply cle_trans; eassumption|].
      intros g' a o [<-|Hin] Ha Ho.
      + eapply cle_trans; [|exact L3]. eapply cle_trans; [|exact L2]. eapply cgroup_le; eassumption.
      + eapply L4; eassumption.
  Qed.

  (** every container attribute item that was written is in the merged attributes, with its value *)
  Theorem container_no_override gs ca :
    read_cattrs gs = Some ca -> forall g a o, In g gs -> In a g -> single_cattr a = Some o -> cle o ca.
  Proof. intros H. apply (proj2 (read_from_le ca_default gs ca H)). Qed.

  (** ... and every item is well formed (it produced something) *)
  Theorem container_all_items_read gs ca :
    read_cattrs gs = Some ca -> forall g (a : cattr T), In g gs -> In a g -> exists o, single_cattr a = Some o.
  Proof.
    unfold read_cattrs. generalize (@ca_default T) as this. induction gs as [|g gs IH]; intros this H g' a Hg Ha; [destruct Hg|].
    cbn [fold_left] in H. destruct (parse_cgroup g) as [og|] eqn:Eg; [|rewrite fold_none in H; discriminate].
    destruct (merge_cattrs this og) as [t1|] eqn:Em; [|rewrite fold_none in H; discriminate].
    destruct Hg as [<-|Hg]; [|eapply IH; eassumption].
    clear - Eg Ha. unfold parse_cgroup in Eg. destruct g as [|a0 g]; [destruct Ha|].
    revert Eg Ha. generalize (@ca_default T) as t0. generalize (a0 :: g) as l. clear.
    induction l as [|b l IHl]; intros t0 H Ha; [destruct Ha|]. cbn [fold_left] in H.
    destruct (single_cattr b) as [ob|] eqn:Eb; [|rewrite fold_none in H; discriminate].
    destruct (merge_cattrs t0 ob) as [t1|]; [|rewrite fold_none in H; discriminate].
    destruct Ha as [<-|Ha]; [exists ob; exact Eb|eapply IHl; eassumption].
  Qed.
End Containers.

(** ** variants *)
Definition vle (a b : vattrs) : Prop := ole (va_rename a) (va_rename b) /\ ole (va_rename_all a) (va_rename_all b).
Lemma vle_refl a : vle a a.
Proof. split; apply ole_refl. Qed.
Lemma vle_trans a b c : vle a b -> vle b c -> vle a c.
Proof. intros [A1 A2] [B1 B2]. split; eapply ole_trans; eassumption. Qed.

Lemma merge_vattrs_le this o r : merge_vattrs this o = Some r -> vle this r /\ vle o r.
Proof.
  unfold merge_vattrs.
  destruct (merge1 (va_rename_all this) (va_rename_all o)) as [ra|] eqn:E1; [|discriminate].
  destruct (merge1 (va_rename this) (va_rename o)) as [rn|] eqn:E2; [|discriminate].
  intros H. inversion H; subst r. apply merge1_le in E1, E2. unfold vle. cbn. tauto.
Qed.

Lemma vgroup_from_le this g r :
  fold_left (fun acc a => match acc with
                          | None => None
                          | Some this => match single_vattr a with
                                         | None => None
                                         | Some o => merge_vattrs this o
                                         end
                          end) g (Some this) = Some r ->
  vle this r /\ forall a o, In a g -> single_vattr a = Some o -> vle o r.
Proof.
  revert this. induction g as [|a g IH]; intros this H; cbn [fold_left] in H.
  - inversion H; subst. split; [apply vle_refl|intros a o []].
  - destruct (single_vattr a) as [o|] eqn:Es; [|rewrite fold_none in H; discriminate].
    destruct (merge_vattrs this o) as [t1|] eqn:Em; [|rewrite fold_none in H; discriminate].
    destruct (merge_vattrs_le _ _ _ Em) as [L1 L2]. destruct (IH t1 H) as [L3 L4].
    split; [eapply vle_trans; eassumption|].
    intros a' o' [<-|Hin] Ho'; [rewrite Es in Ho'; inversion Ho'; subst; eapply vle_trans; eassumption|eapply L4; eassumption].
Qed.

Theorem variant_no_override gs va :
  read_vattrs gs = Some va -> forall g a o, In g gs -> In a g -> single_vattr a = Some o -> vle o va.
Proof.
  unfold read_vattrs. generalize va_default as this. induction gs as [|g gs IH]; intros this H g' a o Hg Ha Ho; [destruct Hg|].
  cbn [fold_left] in H. destruct (parse_vgroup g) as [og|] eqn:Eg; [|rewrite fold_none in H; discriminate].
  destruct (merge_vattrs this og) as [t1|] eqn:Em; [|rewrite fold_none in H; discriminate].
  assert (Hmono : forall gs t r, fold_left (fun acc g => match acc with
                          | None => None
                          | Some this => match parse_vgroup g with
                                         | None => None
                                         | Some o => merge_vattrs this o
                                         end
                          end) gs (Some t) = Some r -> vle t r).
  { clear. induction gs as [|g gs IHg]; intros t r H; cbn [fold_left] in H; [inversion H; apply vle_refl|].
    destruct (parse_vgroup g) as [og|]; [|rewrite fold_none in H; discriminate].
    destruct (merge_vattrs t og) as [t1|] eqn:Em; [|rewrite fold_none in H; discriminate].
    eapply vle_trans; [apply (merge_vattrs_le _ _ _ Em)|apply IHg; exact H]. }
  destruct Hg as [<-|Hg]; [|eapply IH; eassumption].
  eapply vle_trans; [|apply (Hmono gs t1 va H)]. eapply vle_trans; [|apply (merge_vattrs_le _ _ _ Em)].
  unfold parse_vgroup in Eg. destruct g as [|a0 g]; [destruct Ha|]. apply (proj2 (vgroup_from_le va_default (a0 :: g) og Eg) a o); assumption.
Qed.

(** ** fields *)
Section Fields.
  Context {T : Type}.

  Definition ble (a b : bool) : Prop := a = true -> b = true.

  Definition fle (a b : fattrs T) : Prop :=
    ole (fa_rename a) (fa_rename b) /\ ole (fa_default a) (fa_default b) /\ ole (fa_missing a) (fa_missing b)
    /\ ole (fa_error a) (fa_error b) /\ ole (fa_map a) (fa_map b) /\ ole (fa_from a) (fa_from b)
    /\ ole (fa_try_from a) (fa_try_from b) /\ ble (fa_needs_predicate a) (fa_needs_predicate b)
    /\ ble (fa_skipped a) (fa_skipped b).

  Lemma fle_refl a : fle a a.
  Proof. repeat split; try apply ole_refl; intros H; exact H. Qed.
  Lemma fle_trans a b c : fle a b -> fle b c -> fle a c.
  Proof.
    intros (A1 & A2 & A3 & A4 & A5 & A6 & A7 & A8 & A9) (B1 & B2 & B3 & B4 & B5 & B6 & B7 & B8 & B9).
    repeat split; try (eapply ole_trans; eassumption); intros H; [apply B8, A8, H|apply B9, A9, H].
  Qed.

  Lemma merge_fattrs_le (this o r : fattrs T) : merge_fattrs this o = Some r -> fle this r /\ fle o r.
  Proof.
    unfold merge_fattrs.
    destruct (merge1 (fa_rename this) (fa_rename o)) as [rn|] eqn:E1; [|discriminate].
    destruct (merge1 (fa_default this) (fa_default o)) as [df|] eqn:E2; [|discriminate].
    destruct (merge1 (fa_missing this) (fa_missing o)) as [ms|] eqn:E3; [|discriminate].
    destruct (merge1 (fa_error this) (fa_error o)) as [er|] eqn:E4; [|discriminate].
    destruct (merge1 (fa_map this) (fa_map o)) as [mp|] eqn:E5; [|discriminate].
    match goal with |- match ?X with _ => _ end = _ -> _ => destruct X as [fr|] eqn:E6; [|discriminate] end.
    match goal with |- match ?X with _ => _ end = _ -> _ => destruct X as [tf|] eqn:E7; [|discriminate] end.
    intros H. inversion H; subst r. clear H.
    apply merge1_le in E1, E2, E3, E4, E5. apply conv_le in E6. apply conv_le in E7.
    unfold fle, ble. cbn [fa_rename fa_default fa_missing fa_error fa_map fa_from fa_try_from fa_needs_predicate fa_skipped].
    repeat split; try tauto; intros Hb; rewrite Hb; cbn; try reflexivity; apply Bool.orb_true_r.
  Qed.

  Lemma fgroup_from_le this g r :
    fold_left (fun acc a => match acc with
                            | None => None
                            | Some this => match single_fattr a with
                                           | None => None
                                           | Some o => merge_fattrs this o
                                           end
                            end) g (Some this) = Some r ->
    fle this r /\ forall a o, In a g -> single_fattr a = Some o -> fle o r.
  Proof.
    revert this. induction g as [|a g IH]; intros this H; cbn [fold_left] in H.
    - inversion H; subst. split; [apply fle_refl|intros a o []].
    - destruct (single_fattr a) as [o|] eqn:Es; [|rewrite fold_none in H; discriminate].
      destruct (merge_fattrs this o) as [t1|] eqn:Em; [|rewrite fold_none in H; discriminate].
      destruct (merge_fattrs_le _ _ _ Em) as [L1 L2]. destruct (IH t1 H) as [L3 L4].
      split; [eapply fle_trans; eassumption|].
      intros a' o' [<-|Hin] Ho'; [rewrite Es in Ho'; inversion Ho'; subst; eapply fle_trans; eassumption|eapply L4; eassumption].
  Qed.

  Lemma fread_mono : forall gs (t r : fattrs T),
    fold_left (fun acc g => match acc with
                            | None => None
                            | Some this => match parse_fgroup g with
                                           | None => None
                                           | Some o => merge_fattrs this o
                                           end
                            end) gs (Some t) = Some r -> fle t r.
  Proof.
    induction gs as [|g gs IHg]; intros t r H; cbn [fold_left] in H; [inversion H; apply fle_refl|].
    destruct (parse_fgroup g) as [og|]; [|rewrite fold_none in H; discriminate].
    destruct (merge_fattrs t og) as [t1|] eqn:Em; [|rewrite fold_none in H; discriminate].
    eapply fle_trans; [apply (merge_fattrs_le _ _ _ Em)|apply IHg; exact H].
  Qed.

  Theorem field_no_override gs fa :
    read_fattrs gs = Some fa -> forall g a o, In g gs -> In a g -> single_fattr a = Some o -> fle o fa.
  Proof.
    unfold read_fattrs. generalize (@fa_empty T) as this. induction gs as [|g gs IH]; intros this H g' a o Hg Ha Ho; [destruct Hg|].
    cbn [fold_left] in H. destruct (parse_fgroup g) as [og|] eqn:Eg; [|rewrite fold_none in H; discriminate].
    destruct (merge_fattrs this og) as [t1|] eqn:Em; [|rewrite fold_none in H; discriminate].
    destruct Hg as [<-|Hg]; [|eapply IH; eassumption].
    eapply fle_trans; [|apply (fread_mono gs t1 fa H)]. eapply fle_trans; [|apply (merge_fattrs_le _ _ _ Em)].
    unfold parse_fgroup in Eg. destruct g as [|a0 g]; [destruct Ha|]. apply (proj2 (fgroup_from_le fa_empty (a0 :: g) og Eg) a o); assumption.
  Qed.
End Fields.
