(** C04, hand-over locations: a typing discipline that records, for every error value, a location
    under which all the reports it holds lie; a hand-over [merge(_, other, loc)] is well typed only
    if [loc] is an ancestor-or-self of the bound of [other]. Soundness for every run. *)
From Deserr Require Import Base Pointer Kinds Value Prog Spec Monitors.
From Deserr.proofs Require Import ProgProofs PointerProofs HeldProofs Under.
Local Open Scope list_scope.

(** ** ancestors *)
Lemma step_eqb_refl s : step_eqb s s = true.
Proof. destruct s; cbn; [apply String.eqb_refl|apply N.eqb_refl]. Qed.
Lemma step_eqb_eq a b : step_eqb a b = true -> a = b.
Proof.
  destruct a, b; cbn; try discriminate; intros H; [apply String.eqb_eq in H|apply N.eqb_eq in H]; subst; reflexivity.
Qed.
Lemma is_prefix_app a b : is_prefix a (a ++ b) = true.
Proof. induction a as [|x a IH]; [reflexivity|]. cbn. rewrite step_eqb_refl, IH. reflexivity. Qed.
Lemma is_prefix_trans a b c : is_prefix a b = true -> is_prefix b c = true -> is_prefix a c = true.
Proof.
  revert b c. induction a as [|x a IH]; intros b c H1 H2; [reflexivity|].
  destruct b as [|y b]; [discriminate|]. destruct c as [|z c]; [discriminate|]. cbn in *.
  apply andb_prop in H1. destruct H1 as [E1 H1]. apply andb_prop in H2. destruct H2 as [E2 H2].
  apply step_eqb_eq in E1, E2. subst. rewrite step_eqb_refl. cbn. eapply IH; eassumption.
Qed.
Lemma anc_refl l : anc l l = true.
Proof. unfold anc. rewrite <- (app_nil_r (to_owned l)) at 2. apply is_prefix_app. Qed.
Lemma anc_trans a b c : anc a b = true -> anc b c = true -> anc a c = true.
Proof. unfold anc. apply is_prefix_trans. Qed.
Lemma anc_key l k : anc l (Key k l) = true.
Proof. unfold anc, to_owned. cbn [walk_back rev]. apply is_prefix_app. Qed.
Lemma anc_index l i : anc l (Index i l) = true.
Proof. unfold anc, to_owned. cbn [walk_back rev]. apply is_prefix_app. Qed.

(** ** environments of bounds *)
Definition env := N -> option vpr.
Definition upd (B : env) (i : N) (b : vpr) : env := fun j => if N.eqb j i then Some b else B j.
Definition ext_env (B B' : env) : Prop := forall i b, B i = Some b -> B' i = Some b.

Lemma ext_refl B : ext_env B B.
Proof. intros i b H. exact H. Qed.
Lemma ext_trans A B C : ext_env A B -> ext_env B C -> ext_env A C.
Proof. intros H1 H2 i b H. apply H2, H1, H. Qed.
Lemma ext_upd B i b : B i = None -> ext_env B (upd B i b).
Proof. intros Hn j c H. unfold upd. destruct (N.eqb j i) eqn:E; [|exact H]. apply N.eqb_eq in E. subst. congruence. Qed.
Lemma upd_same B i b : upd B i b i = Some b.
Proof. unfold upd. rewrite N.eqb_refl. reflexivity. Qed.

(** [id] has a recorded bound lying under [b] *)
Definition bound_le (B : env) (id : N) (b : vpr) : Prop := exists b0, B id = Some b0 /\ anc b b0 = true.

Lemma bound_le_ext B B' id b : ext_env B B' -> bound_le B id b -> bound_le B' id b.
Proof. intros He (b0 & H & Ha). exists b0. split; [apply He; exact H|exact Ha]. Qed.
Lemma bound_le_up B id b b' : anc b' b = true -> bound_le B id b -> bound_le B id b'.
Proof. intros Ha (b0 & H & Hb). exists b0. split; [exact H|eapply anc_trans; eassumption]. Qed.
Lemma bound_le_new B i b : bound_le (upd B i b) i b.
Proof. exists b. split; [apply upd_same|apply anc_refl]. Qed.

Definition acc_ok (B : env) (acc : option N) (l : vpr) : Prop :=
  match acc with Some e => bound_le B e l | None => True end.
Lemma acc_ok_ext B B' acc l : ext_env B B' -> acc_ok B acc l -> acc_ok B' acc l.
Proof. destruct acc; [apply bound_le_ext|auto]. Qed.

Definition call_loc_ok (B : env) (c : call) (bnew : vpr) : Prop :=
  match c with
  | CError _ s _ l | CMergeU _ s _ l => anc bnew l = true /\ acc_ok B s bnew
  | CMerge _ s _ o l => bound_le B o l /\ anc bnew l = true /\ acc_ok B s bnew
  | CUser _ _ => True
  end.

Inductive Loc {X} (post : X -> env -> Prop) : env -> prog X -> Prop :=
| Loc_ret B x : post x B -> Loc post B (Ret x)
| Loc_op B c k bnew :
    call_loc_ok B c bnew ->
    (forall i ans, B i = None -> Loc post (if creates c then upd B i bnew else B) (k i ans)) ->
    Loc post B (Op c k).

Lemma Loc_bind {X Y} (pp : X -> env -> Prop) (pf : Y -> env -> Prop) B (p : prog X) (f : X -> prog Y) :
  Loc pp B p -> (forall x B', ext_env B B' -> pp x B' -> Loc pf B' (f x)) -> Loc pf B (bind p f).
Proof.
  intros Hp. induction Hp as [B x Hx|B c k bnew Hc Hk IH]; intros Hf; cbn [bind].
  - apply Hf; [apply ext_refl|exact Hx].
  - apply Loc_op with (bnew := bnew); [exact Hc|]. intros i ans Hi. apply IH; [exact Hi|].
    intros x B' He Hx. apply Hf; [|exact Hx]. eapply ext_trans; [|exact He].
    destruct (creates c); [apply ext_upd; exact Hi|apply ext_refl].
Qed.

Lemma Loc_user {X} (post : X -> env -> Prop) B fn args (k : prog X) : Loc post B k -> Loc post B (user_call fn args k).
Proof. intros H. unfold user_call. apply Loc_op with (bnew := Origin); [exact I|]. intros i ans _. exact H. Qed.

(** ** soundness *)
Definition Inv (s : list call) (B : env) : Prop :=
  wf_refs s /\ forall id b, B id = Some b ->
    (N.to_nat id < List.length s)%nat /\ forall l', In l' (under_all own_loc s id) -> anc b l' = true.

(** every hand-over in [s] is made at an ancestor-or-self of all locations under what it hands over *)
Definition merge_ok (s : list call) (c : call) : Prop :=
  match c with
  | CMerge _ _ _ o l => forall l', In l' (under_all own_loc s o) -> anc l l' = true
  | _ => True
  end.

Lemma bound_le_inv s B id b : Inv s B -> bound_le B id b ->
  (N.to_nat id < List.length s)%nat /\ forall l', In l' (under_all own_loc s id) -> anc b l' = true.
Proof.
  intros [_ HI] (b0 & Hb & Ha). destruct (HI id b0 Hb) as [Hlt Hall]. split; [exact Hlt|].
  intros l' Hin. eapply anc_trans; [exact Ha|apply Hall; exact Hin].
Qed.

Lemma acc_ok_inv s B acc b : Inv s B -> acc_ok B acc b ->
  match acc with
  | Some x => (N.to_nat x < List.length s)%nat /\ forall l', In l' (under_all own_loc s x) -> anc b l' = true
  | None => True
  end.
Proof. destruct acc; [apply bound_le_inv|auto]. Qed.

Theorem loc_sound {X} (post : X -> env -> Prop) B (p : prog X) :
  Loc post B p ->
  forall script s, Inv s B -> Forall (merge_ok s) s ->
  exists B', Inv (snd (run script p s)) B' /\ post (fst (run script p s)) B'
             /\ Forall (merge_ok (snd (run script p s))) (snd (run script p s)).
Proof.
  induction 1 as [B x Hx|B c k bnew Hc Hk IH]; intros script s HI HM; cbn [run fst snd].
  - exists B. split; [exact HI|split; [exact Hx|exact HM]].
  - set (i := N.of_nat (List.length s)).
    assert (Hfresh : B i = None).
    { destruct (B i) as [b|] eqn:E; [|reflexivity]. destruct HI as [_ HI]. destruct (HI i b E) as [Hlt _]. unfold i in Hlt. lia. }
    pose proof HI as [Hwf HIb].
    (* uses of the new call refer to earlier calls *)
    assert (Huses : forall u, In u (call_uses c) -> (N.to_nat u < List.length s)%nat).
    { intros u Hu. destruct c as [a sf kd l|a sf oa o l|a sf ue l|fn args]; cbn [call_uses call_loc_ok] in *.
      - destruct Hc as [_ Hs]. destruct sf as [x|]; [|destruct Hu]. destruct Hu as [<-|[]]. apply (bound_le_inv s B x bnew HI Hs).
      - destruct Hc as (Ho & _ & Hs). apply in_app_or in Hu. destruct Hu as [Hu|[<-|[]]].
        + destruct sf as [x|]; [|destruct Hu]. destruct Hu as [<-|[]]. apply (bound_le_inv s B x bnew HI Hs).
        + apply (bound_le_inv s B o l HI Ho).
      - destruct Hc as [_ Hs]. destruct sf as [x|]; [|destruct Hu]. destruct Hu as [<-|[]]. apply (bound_le_inv s B x bnew HI Hs).
      - destruct Hu. }
    assert (Hwf' : wf_refs (s ++ [c])).
    { intros n c0 Hn u Hu. destruct (Nat.lt_ge_cases n (List.length s)) as [Hlt|Hge].
      - rewrite nth_opt_app_l in Hn by exact Hlt. eapply Hwf; eassumption.
      - pose proof (nth_opt_lt _ _ _ Hn) as Hlt. rewrite app_length in Hlt. cbn [List.length] in Hlt.
        assert (n = List.length s) by lia. subst n. rewrite nth_opt_app_exact in Hn. inversion Hn; subst c0. apply Huses. exact Hu. }
    assert (Hold : forall id, (N.to_nat id < List.length s)%nat -> under_all own_loc (s ++ [c]) id = under_all own_loc s id).
    { intros id Hid. apply under_all_extend; assumption. }
    (* the new call, if it is a hand-over, is well located *)
    assert (HMc : merge_ok (s ++ [c]) c).
    { destruct c as [a sf kd l|a sf oa o l|a sf ue l|fn args]; cbn [merge_ok]; try exact I.
      destruct Hc as (Ho & _ & _). destruct (bound_le_inv s B o l HI Ho) as [Hlt Hall].
      intros l' Hin. rewrite Hold in Hin by exact Hlt. apply Hall. exact Hin. }
    assert (HM' : Forall (merge_ok (s ++ [c])) (s ++ [c])).
    { apply Forall_app. split; [|constructor; [exact HMc|constructor]].
      rewrite Forall_forall in *. intros c0 Hin. specialize (HM c0 Hin).
      destruct c0 as [a sf kd l|a sf oa o l|a sf ue l|fn args]; cbn [merge_ok] in *; try exact I.
      assert (Hlt : (N.to_nat o < List.length s)%nat).
      { apply In_nth_error in Hin. destruct Hin as [n Hn].
        assert (Hn' : nth_opt s n = Some (CMerge a sf oa o l)).
        { clear - Hn. revert n Hn. induction s as [|y s IHs]; intros n Hn; destruct n; try discriminate; cbn in *; [exact Hn|apply IHs; exact Hn]. }
        pose proof (Hwf n _ Hn' o) as Hu. pose proof (nth_opt_lt _ _ _ Hn'). assert (N.to_nat o < n)%nat; [|lia].
        apply Hu. cbn [call_uses]. apply in_or_app. right. left. reflexivity. }
      intros l' Hl'. rewrite Hold in Hl' by exact Hlt. apply HM. exact Hl'. }
    set (Bn := if creates c then upd B i bnew else B).
    assert (HI' : Inv (s ++ [c]) Bn).
    { split; [exact Hwf'|]. intros id b Hb. unfold Bn in Hb.
      assert (Hcase : (creates c = true /\ id = i /\ b = bnew) \/ B id = Some b).
      { destruct (creates c); [|right; exact Hb]. unfold upd in Hb. destruct (N.eqb id i) eqn:E; [|right; exact Hb].
        apply N.eqb_eq in E. inversion Hb. left. repeat split; assumption. }
      destruct Hcase as [(Hcr & -> & ->)|Hb'].
      - split; [rewrite app_length; cbn; unfold i; lia|]. unfold i. rewrite under_all_last by exact Hwf'.
        intros l' Hin.
        destruct c as [a sf kd l|a sf oa o l|a sf ue l|fn args]; cbn [creates] in Hcr; try discriminate; cbn [call_loc_ok own_loc] in *.
        + destruct Hc as [Ha Hs]. apply in_app_or in Hin. destruct Hin as [[<-|[]]|Hin]; [exact Ha|].
          destruct sf as [x|]; [|destruct Hin]. apply (bound_le_inv s B x bnew HI Hs). exact Hin.
        + destruct Hc as (Ho & Ha & Hs). apply in_app_or in Hin. destruct Hin as [[<-|[]]|Hin]; [exact Ha|].
          apply in_app_or in Hin. destruct Hin as [Hin|Hin].
          * eapply anc_trans; [exact Ha|]. apply (bound_le_inv s B o l HI Ho). exact Hin.
          * destruct sf as [x|]; [|destruct Hin]. apply (bound_le_inv s B x bnew HI Hs). exact Hin.
        + destruct Hc as [Ha Hs]. apply in_app_or in Hin. destruct Hin as [[<-|[]]|Hin]; [exact Ha|].
          destruct sf as [x|]; [|destruct Hin]. apply (bound_le_inv s B x bnew HI Hs). exact Hin.
      - destruct (HIb id b Hb') as [Hlt Hall]. split; [rewrite app_length; lia|].
        intros l' Hin. rewrite Hold in Hin by exact Hlt. apply Hall. exact Hin. }
    apply (IH i (script i) Hfresh script (s ++ [c]) HI' HM').
Qed.
