(** C12: no panic site of the interpreter is reachable. *)
From Deserr Require Import Base Pointer Kinds Value Prog Utf8 Scalars Types Deser.
From Deserr.proofs Require Import ProgProofs LeavesProofs TyInd.

Definition np (r : res) : Prop := match r with RPanic _ => False | _ => True end.
Notation NP := (Leaves np).

Lemma np_ret r : np r -> NP (Ret r).
Proof. intros H. constructor. exact H. Qed.

Lemma np_fail_with a k l : NP (fail_with a k l).
Proof. apply Leaves_call; [reflexivity|]. intros i ans. constructor. exact I. Qed.

Lemma np_absorb {X} (ok : X -> Prop) a acc oalg e loc go stop :
  (forall i, Leaves ok (go (Some i))) -> (forall i, Leaves ok (stop i)) ->
  Leaves ok (absorb a acc oalg e loc go stop).
Proof. intros Hg Hs. apply Leaves_call; [reflexivity|]. intros i ans. destruct ans; [apply Hg|apply Hs]. Qed.
Lemma np_report {X} (ok : X -> Prop) a acc k loc go stop :
  (forall i, Leaves ok (go (Some i))) -> (forall i, Leaves ok (stop i)) ->
  Leaves ok (report a acc k loc go stop).
Proof. intros Hg Hs. apply Leaves_call; [reflexivity|]. intros i ans. destruct ans; [apply Hg|apply Hs]. Qed.
Lemma np_report_user {X} (ok : X -> Prop) a acc u loc go stop :
  (forall i, Leaves ok (go (Some i))) -> (forall i, Leaves ok (stop i)) ->
  Leaves ok (report_user a acc u loc go stop).
Proof. intros Hg Hs. apply Leaves_call; [reflexivity|]. intros i ans. destruct ans; [apply Hg|apply Hs]. Qed.

Lemma np_deser_int a d v l : NP (deser_int a d v l).
Proof.
  unfold deser_int. destruct v; try apply np_fail_with;
    repeat match goal with |- NP (if ?c then _ else _) => destruct c end;
    try apply np_fail_with; apply np_ret; exact I.
Qed.
Lemma np_deser_f64 a v l : NP (deser_f64 a v l).
Proof. destruct v; try apply np_fail_with; apply np_ret; exact I. Qed.
Lemma np_deser_f32 a v l : NP (deser_f32 a v l).
Proof. destruct v; try apply np_fail_with; apply np_ret; exact I. Qed.
Lemma np_deser_unit a v l : NP (deser_unit a v l).
Proof. destruct v; try apply np_fail_with; apply np_ret; exact I. Qed.
Lemma np_deser_bool a v l : NP (deser_bool a v l).
Proof. destruct v; try apply np_fail_with; apply np_ret; exact I. Qed.
Lemma np_deser_string a v l : NP (deser_string a v l).
Proof. destruct v; try apply np_fail_with; apply np_ret; exact I. Qed.
Lemma np_deser_char a v l : NP (deser_char a v l).
Proof.
  destruct v; try apply np_fail_with. unfold deser_char.
  destruct (chars s) as [|c [|c' r]]; try apply np_fail_with. apply np_ret; exact I.
Qed.
Lemma np_deser_cs a ep v l : NP (deser_cs a ep v l).
Proof.
  destruct v; try apply np_fail_with. unfold deser_cs.
  destruct (parse_cs ep s); [apply np_ret; exact I|apply np_fail_with].
Qed.

Lemma np_and_then p f : NP p -> (forall o, NP (f o)) -> NP (and_then p f).
Proof.
  intros Hp Hf. unfold and_then. apply leaves_bind with (okp := np); [exact Hp|].
  intros [o|e|s] H; [apply Hf|apply np_ret; exact I|destruct H].
Qed.
Lemma np_map_ok p f : NP p -> NP (map_ok p f).
Proof.
  intros Hp. unfold map_ok. apply leaves_bind with (okp := np); [exact Hp|].
  intros [o|e|s] H; apply np_ret; [exact I|exact I|destruct H].
Qed.
Lemma np_validate a val l o : NP (validate a val l o).
Proof.
  unfold validate. destruct val as [fn|]; [|apply np_ret; exact I].
  apply leaves_user. destruct (ufail o); [|apply np_ret; exact I].
  apply Leaves_call; [reflexivity|]. intros i ans. apply np_ret. exact I.
Qed.

(** sequences: with an empty accumulator, every element so far produced an output *)
Lemma np_seq_loop runel a l fin total :
  (forall v l', NP (runel v l')) ->
  (forall os, List.length os = total -> np (fin os)) ->
  forall vs idx acc outs_rev,
    (acc = None -> (List.length outs_rev + List.length vs)%nat = total) ->
    NP (seq_loop runel a l fin vs idx acc outs_rev).
Proof.
  intros Hel Hfin. induction vs as [|v vs IH]; intros idx acc outs_rev Hinv; cbn [seq_loop].
  - apply np_ret. destruct acc as [e|]; [exact I|]. apply Hfin. rewrite rev_length.
    specialize (Hinv eq_refl). cbn [List.length] in Hinv. lia.
  - apply leaves_bind with (okp := np); [apply Hel|].
    intros [o|e|s] H; [| |destruct H].
    + apply IH. intros Hacc. specialize (Hinv Hacc). cbn [List.length] in *. lia.
    + apply np_absorb.
      * intros i. apply IH. intros Hc; discriminate.
      * intros i. apply np_ret. exact I.
Qed.

Lemma np_tuple_loop a l :
  forall items idx acc slots_rev,
    Forall (fun it => forall v l', NP (fst it v l')) items ->
    (acc = None -> forallb (fun s : option out => match s with Some _ => true | None => false end) slots_rev = true) ->
    NP (tuple_loop a l items idx acc slots_rev).
Proof.
  induction items as [|[runel v] items IH]; intros idx acc slots_rev Hall Hinv; cbn [tuple_loop].
  - apply np_ret. destruct acc as [e|]; [exact I|]. rewrite (Hinv eq_refl). exact I.
  - inversion Hall as [|? ? Hv Hrest]; subst. cbn [fst] in Hv.
    apply leaves_bind with (okp := np); [apply Hv|].
    intros [o|e|s] H; [| |destruct H].
    + apply IH; [exact Hrest|]. intros Hacc. cbn [forallb]. apply Hinv. exact Hacc.
    + apply np_absorb.
      * intros i. apply IH; [exact Hrest|]. intros Hc; discriminate.
      * intros i. apply np_ret. exact I.
Qed.

Lemma np_map_loop runel kp tyname a l :
  (forall v l', NP (runel v l')) ->
  forall ms acc res_map, NP (map_loop runel kp tyname a l ms acc res_map).
Proof.
  intros Hel. induction ms as [|[k v] ms IH]; intros acc res_map; cbn [map_loop].
  - apply np_ret. destruct acc; exact I.
  - destruct (parse_key kp k) as [ko|perr].
    + apply leaves_bind with (okp := np); [apply Hel|].
      intros [o|e|s] H; [| |destruct H].
      * apply IH.
      * apply np_absorb; [intros i; apply IH|intros i; apply np_ret; exact I].
    + apply np_report; [intros i; apply IH|intros i; apply np_ret; exact I].
Qed.

Lemma np_deser_json a : forall v l, NP (deser_json a v l).
Proof.
  fix IH 1. intros v l. destruct v as [| b | x | x | f | s | vs | ms]; cbn [deser_json];
    try (apply np_ret; exact I).
  - destruct (float_is_finite f); [apply np_ret; exact I|apply np_fail_with].
  - generalize (@None N) as acc. generalize (@nil value) as outs_rev. generalize 0%N as idx.
    induction vs as [|x vs IHvs]; intros idx outs_rev acc.
    + apply np_ret. destruct acc; exact I.
    + apply leaves_bind with (okp := np); [apply IH|].
      intros [o|e|s] H; [| |destruct H].
      * apply IHvs.
      * apply np_absorb; [intros i; apply IHvs|intros i; apply np_ret; exact I].
  - generalize (@None N) as acc. generalize (@nil (string * value)) as jm.
    induction ms as [|[k x] ms IHms]; intros jm acc.
    + apply np_ret. destruct acc; exact I.
    + apply leaves_bind with (okp := np); [apply IH|].
      intros [o|e|s] H; [| |destruct H].
      * apply IHms.
      * apply np_absorb; [intros i; apply IHms|intros i; apply np_ret; exact I].
Qed.

(** *** derived structs: field states *)
Definition rfield_np (f : rfield) : Prop := forall a v l, NP (rf_run f a v l).

Definition not_err (st : fstate) : Prop := match st with FErr => False | _ => True end.
Definition not_missing (st : fstate) : Prop := match st with FMissing => False | _ => True end.

(** invariant of the entry loop: the vector keeps its length; a field state is [FErr] only when
    the accumulator holds an error *)
Definition step_inv (n : nat) (so : step_out) : Prop :=
  match so with
  | SGo acc sts => List.length sts = n /\ (acc = None -> Forall not_err sts)
  | SStop r => np r
  end.

Lemma set_nth_length {A} i (x : A) l : List.length (set_nth i x l) = List.length l.
Proof.
  revert i. induction l as [|y l IH]; intros i; [destruct i; reflexivity|].
  destruct i; cbn [set_nth List.length]; [reflexivity|]. rewrite IH. reflexivity.
Qed.

Lemma set_nth_forall {A} (P : A -> Prop) i x l : P x -> Forall P l -> Forall P (set_nth i x l).
Proof.
  intros Hx. revert i. induction l as [|y l IH]; intros i Hl; [destruct i; constructor|].
  inversion Hl; subst. destruct i; cbn [set_nth]; constructor; auto.
Qed.

Lemma np_field_entry a f i k v l acc sts n :
  rfield_np f -> List.length sts = n -> (acc = None -> Forall not_err sts) ->
  Leaves (step_inv n) (field_entry a f i k v l acc sts).
Proof.
  intros Hf Hlen Hinv. unfold field_entry. apply leaves_bind with (okp := np); [apply Hf|].
  intros [x|e|s] H; [| |destruct H].
  - assert (Hgo : forall o, step_inv n (SGo acc (set_nth i (FSome o) sts))).
    { intros o. split; [rewrite set_nth_length; exact Hlen|].
      intros Hacc. apply set_nth_forall; [exact I|apply Hinv; exact Hacc]. }
    destruct (rf_from f) as [|fn|fn].
    + constructor. apply Hgo.
    + apply leaves_user. constructor. apply Hgo.
    + apply leaves_user. destruct (ufail x); [|constructor; apply Hgo].
      apply Leaves_call; [reflexivity|]. intros i1 ans1. apply Leaves_call; [reflexivity|]. intros i2 ans2.
      destruct (ans1 && ans2); constructor.
      * split; [rewrite set_nth_length; exact Hlen|intros Hc; discriminate].
      * exact I.
  - apply np_absorb.
    + intros i'. constructor. split; [rewrite set_nth_length; exact Hlen|intros Hc; discriminate].
    + intros i'. constructor. exact I.
Qed.

Lemma np_unknown_key a d keys k l acc sts n :
  List.length sts = n -> (acc = None -> Forall not_err sts) ->
  Leaves (step_inv n) (unknown_key a d keys k l acc sts).
Proof.
  intros Hlen Hinv. unfold unknown_key.
  assert (Hgo : forall i : N, Leaves (step_inv n) (Ret (SGo (Some i) sts))).
  { intros i. constructor. split; [exact Hlen|intros Hc; discriminate]. }
  assert (Hstop : forall i : N, Leaves (step_inv n) (Ret (SStop (RErr i)))).
  { intros i. constructor. exact I. }
  destruct d as [| |fn].
  - constructor. split; assumption.
  - apply np_report; assumption.
  - apply leaves_user. apply np_report_user; assumption.
Qed.

Lemma find_field_in' fs k i0 i f : find_field fs k i0 = Some (i, f) -> In f fs.
Proof.
  revert i0. induction fs as [|g fs IH]; intros i0 H; [discriminate|].
  cbn [find_field] in H. destruct (String.eqb (rf_key g) k).
  - inversion H; subst. left; reflexivity.
  - right. eapply IH; exact H.
Qed.

Lemma np_entries_loop a fs d keys l n :
  Forall rfield_np fs ->
  forall ms acc sts,
    List.length sts = n -> (acc = None -> Forall not_err sts) ->
    Leaves (step_inv n) (entries_loop a fs d keys l ms acc sts).
Proof.
  intros Hfs. induction ms as [|[k v] ms IH]; intros acc sts Hlen Hinv; cbn [entries_loop].
  - constructor. split; assumption.
  - apply leaves_bind with (okp := step_inv n).
    + destruct (find_field fs k 0) as [[i f]|] eqn:E.
      * apply np_field_entry; try assumption.
        rewrite Forall_forall in Hfs. apply Hfs. eapply find_field_in'; exact E.
      * apply np_unknown_key; assumption.
    + intros [acc' sts'|r] H.
      * destruct H as [Hl Hi]. apply IH; assumption.
      * constructor. exact H.
Qed.

Definition miss_inv (acc0 : option N) (sts : list fstate) (m : option N + res) : Prop :=
  match m with
  | inl acc' => acc' = None -> acc0 = None /\ Forall not_missing sts
  | inr r => np r
  end.

Lemma np_missing_loop a l :
  forall fs sts acc, List.length fs = List.length sts ->
    Leaves (miss_inv acc sts) (missing_loop a l fs sts acc).
Proof.
  induction fs as [|f fs IH]; intros sts acc Hlen; cbn [missing_loop].
  - destruct sts; [|discriminate]. constructor. intros Hacc. split; [exact Hacc|constructor].
  - destruct sts as [|st sts]; [discriminate|]. cbn [List.length] in Hlen. injection Hlen as Hlen.
    assert (Hnext : forall acc', Leaves (miss_inv acc' sts) (missing_loop a l fs sts acc')) by (intros; apply IH; exact Hlen).
    destruct st.
    + (* missing: whatever follows, the accumulator is not None any more *)
      assert (Hgo : forall i : N, Leaves (miss_inv acc (FMissing :: sts)) (missing_loop a l fs sts (Some i))).
      { intros i. eapply leaves_weaken; [|apply Hnext].
        intros [acc'|r] H; cbn [miss_inv] in *; [|exact H].
        intros Hc. destruct (H Hc) as [Hd _]. discriminate. }
      assert (Hstop : forall i : N, Leaves (miss_inv acc (FMissing :: sts)) (Ret (inr (RErr i)))).
      { intros i. constructor. exact I. }
      destruct (rf_missing f) as [fn|].
      * apply leaves_user. apply np_report_user; assumption.
      * apply np_report; assumption.
    + eapply leaves_weaken; [|apply Hnext].
      intros [acc'|r] H; cbn [miss_inv] in *; [|exact H].
      intros Hc. destruct (H Hc) as [H1 H2]. split; [exact H1|constructor; [exact I|exact H2]].
    + eapply leaves_weaken; [|apply Hnext].
      intros [acc'|r] H; cbn [miss_inv] in *; [|exact H].
      intros Hc. destruct (H Hc) as [H1 H2]. split; [exact H1|constructor; [exact I|exact H2]].
Qed.

Definition constr_ok (c : list (string * out) + res) : Prop :=
  match c with inl _ => True | inr r => np r end.

Lemma np_construct : forall items outs_rev,
  Forall (fun it : string * fstate * option N => exists o, snd (fst it) = FSome o) items ->
  Leaves constr_ok (construct items outs_rev).
Proof.
  induction items as [|[[name st] m] items IH]; intros outs_rev Hall; cbn [construct].
  - constructor. exact I.
  - inversion Hall as [|? ? [o Ho] Hrest]; subst. cbn [fst snd] in Ho. subst st.
    destruct m as [fn|]; [apply leaves_user|]; apply IH; exact Hrest.
Qed.

Lemma np_run_fields a fs sk d mk ms l :
  Forall rfield_np fs -> NP (run_fields a fs sk d mk ms l).
Proof.
  intros Hfs. unfold run_fields.
  set (n := List.length fs).
  apply leaves_bind with (okp := step_inv n).
  - apply np_entries_loop; [exact Hfs|rewrite map_length; reflexivity|].
    intros _. rewrite Forall_forall. intros st Hin. apply in_map_iff in Hin.
    destruct Hin as [f [<- _]]. destruct (rf_default f); exact I.
  - intros [acc sts|r] H; [|apply np_ret; exact H].
    destruct H as [Hlen Hinv].
    apply leaves_bind with (okp := miss_inv acc sts).
    + apply np_missing_loop. rewrite Hlen. reflexivity.
    + intros [acc'|r] H; [|apply np_ret; exact H].
      destruct acc' as [e|]; [apply np_ret; exact I|].
      destruct (H eq_refl) as [Hacc Hnm]. specialize (Hinv Hacc).
      apply leaves_bind with (okp := constr_ok).
      * apply np_construct. apply Forall_app. split.
        -- rewrite Forall_forall. intros it Hin. apply in_map_iff in Hin.
           destruct Hin as [[f st] [<- Hin]]. cbn [fst snd].
           apply in_combine_r in Hin.
           rewrite Forall_forall in Hinv, Hnm. specialize (Hinv st Hin). specialize (Hnm st Hin).
           destruct st; [destruct Hnm|destruct Hinv|eexists; reflexivity].
        -- rewrite Forall_forall. intros it Hin. apply in_map_iff in Hin.
           destruct Hin as [s [<- _]]. cbn [fst snd]. eexists; reflexivity.
      * intros [fields|r] Hc; apply np_ret; [exact I|exact Hc].
Qed.

Lemma np_run_tagged a tag vs v l :
  Forall (fun rv => match rv_data rv with
                    | None => True
                    | Some (fs, _, _) => Forall rfield_np fs
                    end) vs ->
  NP (run_tagged a tag vs v l).
Proof.
  intros Hvs. unfold run_tagged. destruct v; try apply np_fail_with.
  destruct (remove_first tag l0) as [[tv rest]|]; [|apply np_fail_with].
  destruct tv; try apply np_fail_with.
  destruct (find_variant vs s) as [rv|] eqn:E; [|apply np_fail_with].
  assert (Hin : In rv vs).
  { clear Hvs. induction vs as [|x vs IH]; [discriminate|]. cbn [find_variant] in E.
    destruct (String.eqb (rv_key x) s); [inversion E; left; reflexivity|right; apply IH; exact E]. }
  rewrite Forall_forall in Hvs. specialize (Hvs rv Hin).
  destruct (rv_data rv) as [[[fs sk] d]|]; [|apply np_ret; exact I].
  apply np_run_fields. exact Hvs.
Qed.

Lemma np_run_unit_enum a vs v l : NP (run_unit_enum a vs v l).
Proof.
  unfold run_unit_enum. destruct v; try apply np_fail_with.
  destruct (find_unit vs s); [apply np_ret; exact I|apply np_fail_with].
Qed.

Theorem deser_np : forall t a v l, NP (deser t a v l).
Proof.
  induction t using ty_ind'; intros a v l; cbn [deser].
  - apply np_deser_unit.
  - apply np_deser_bool.
  - apply np_deser_int.
  - apply np_deser_f32.
  - apply np_deser_f64.
  - apply np_deser_char.
  - apply np_deser_string.
  - apply np_ret; exact I.
  - apply np_deser_json.
  - destruct v; try apply np_fail_with.
    apply (np_seq_loop (deser t a) a l _ (List.length l0) (fun v l' => IHt a v l')); [intros; exact I|reflexivity].
  - destruct v; try apply np_fail_with.
    destruct (N.eqb_spec (N.of_nat (List.length l0)) n) as [Heq|Hne]; cbn [negb]; [|apply np_fail_with].
    apply (np_seq_loop (deser t a) a l _ (List.length l0) (fun v l' => IHt a v l')); [|reflexivity].
    intros os Hos. rewrite Hos, Heq, N.eqb_refl. exact I.
  - destruct v; try apply np_fail_with.
    destruct l0 as [|x [|y [|z r]]]; try apply np_fail_with.
    apply np_tuple_loop; [|reflexivity].
    repeat constructor; cbn [fst]; intros; [apply IHt1|apply IHt2].
  - destruct v; try apply np_fail_with.
    destruct l0 as [|x [|y [|z [|w r]]]]; try apply np_fail_with.
    apply np_tuple_loop; [|reflexivity].
    repeat constructor; cbn [fst]; intros; [apply IHt1|apply IHt2|apply IHt3].
  - destruct v; try apply np_fail_with.
    apply (np_seq_loop (deser t a) a l _ (List.length l0) (fun v l' => IHt a v l')); [intros; exact I|reflexivity].
  - destruct v; try apply np_fail_with.
    apply (np_seq_loop (deser t a) a l _ (List.length l0) (fun v l' => IHt a v l')); [intros; exact I|reflexivity].
  - destruct v; try apply np_fail_with.
    apply (np_map_loop (deser t a) kp n a l (fun v l' => IHt a v l')).
  - destruct v; try (apply np_map_ok; apply IHt). apply np_ret; exact I.
  - apply IHt.
  - apply np_deser_cs.
  - apply np_and_then; [|intros o; apply np_validate].
    destruct v; try apply np_fail_with. apply np_run_fields.
    unfold Pfields in H. rewrite Forall_forall in *. intros rf Hin.
    apply in_map_iff in Hin. destruct Hin as [cf [<- Hcf]]. intros a' v' l'. cbn [rf_run].
    apply (H cf Hcf).
  - apply np_and_then; [|intros o; apply np_validate].
    apply np_run_tagged. rewrite Forall_forall in *. intros rv Hin.
    apply in_map_iff in Hin. destruct Hin as [cv [<- Hcv]]. cbn [rv_data].
    specialize (H cv Hcv). unfold Pvariant in H. destruct (cv_data cv) as [|s]; [exact I|].
    unfold Pfields in H. rewrite Forall_forall in *. intros rf Hin.
    apply in_map_iff in Hin. destruct Hin as [cf [<- Hcf]]. intros a' v' l'. cbn [rf_run].
    apply (H cf Hcf).
  - apply np_and_then; [apply np_run_unit_enum|intros o; apply np_validate].
  - apply np_and_then; [apply IHt|]. intros o. apply leaves_user. apply np_validate.
  - apply np_and_then; [apply IHt|]. intros o. apply leaves_user.
    destruct (ufail o); [|apply np_validate].
    apply Leaves_call; [reflexivity|]. intros i ans. apply np_ret. exact I.
Qed.

Theorem deser_never_panics t a v l script s site :
  fst (run script (deser t a v l) s) <> RPanic site.
Proof.
  intros H. pose proof (leaves_sound np _ (deser_np t a v l) script s) as Hn.
  rewrite H in Hn. exact Hn.
Qed.
