(** Linearity of the interpreter: every error value created during [deser] is consumed exactly
    once or returned (C01). *)
From Coq Require Import Permutation.
From Deserr Require Import Base Pointer Kinds Value Prog Utf8 Scalars Types Deser Monitors.
From Deserr.proofs Require Import ProgProofs LinProofs TyInd.

Definition held_opt (o : option N) : list N := match o with Some e => [e] | None => [] end.
Definition held_res (r : res) : option (list N) :=
  match r with ROk _ => Some [] | RErr e => Some [e] | RPanic _ => None end.
Definition held_step (s : step_out) : option (list N) :=
  match s with SGo acc _ => Some (held_opt acc) | SStop r => held_res r end.
Definition held_miss (m : option N + res) : option (list N) :=
  match m with inl acc => Some (held_opt acc) | inr r => held_res r end.
Definition held_constr (c : list (string * out) + res) : option (list N) :=
  match c with inl _ => Some [] | inr r => held_res r end.

Notation LinRes := (Lin held_res).

Lemma lin_ret_ok L o : L = [] -> LinRes L (Ret (ROk o)).
Proof. intros ->. constructor. cbn. reflexivity. Qed.

Lemma lin_ret_panic L s : LinRes L (Ret (RPanic s)).
Proof. constructor. exact I. Qed.

Lemma lin_ret_err i : LinRes [i] (Ret (RErr i)).
Proof. constructor. cbn. reflexivity. Qed.

Lemma lin_fail_with a k l : LinRes [] (fail_with a k l).
Proof.
  unfold fail_with. apply Lin_op with (L' := []); [reflexivity|].
  intros i ans _. cbn [creates]. apply lin_ret_err.
Qed.

Lemma lin_absorb {X} (h : X -> option (list N)) a acc oalg e loc go stop :
  (forall i, Lin h [i] (go (Some i))) -> (forall i, Lin h [i] (stop i)) ->
  Lin h (held_opt acc ++ [e]) (absorb a acc oalg e loc go stop).
Proof.
  intros Hgo Hstop. unfold absorb. apply Lin_op with (L' := []).
  - cbn [call_uses]. rewrite app_nil_r. destruct acc; reflexivity.
  - intros i ans _. cbn [creates]. destruct ans; [apply Hgo|apply Hstop].
Qed.

Lemma lin_report {X} (h : X -> option (list N)) a acc k loc go stop :
  (forall i, Lin h [i] (go (Some i))) -> (forall i, Lin h [i] (stop i)) ->
  Lin h (held_opt acc) (report a acc k loc go stop).
Proof.
  intros Hgo Hstop. unfold report. apply Lin_op with (L' := []).
  - cbn [call_uses]. rewrite app_nil_r. destruct acc; reflexivity.
  - intros i ans _. cbn [creates]. destruct ans; [apply Hgo|apply Hstop].
Qed.

Lemma lin_report_user {X} (h : X -> option (list N)) a acc u loc go stop :
  (forall i, Lin h [i] (go (Some i))) -> (forall i, Lin h [i] (stop i)) ->
  Lin h (held_opt acc) (report_user a acc u loc go stop).
Proof.
  intros Hgo Hstop. unfold report_user. apply Lin_op with (L' := []).
  - cbn [call_uses]. rewrite app_nil_r. destruct acc; reflexivity.
  - intros i ans _. cbn [creates]. destruct ans; [apply Hgo|apply Hstop].
Qed.

(** *** scalars *)
Lemma lin_deser_int a d v l : LinRes [] (deser_int a d v l).
Proof.
  unfold deser_int. destruct v; try apply lin_fail_with;
    repeat match goal with
           | |- LinRes [] (if ?c then _ else _) => destruct c
           end; try apply lin_fail_with; apply lin_ret_ok; reflexivity.
Qed.
Lemma lin_deser_f64 a v l : LinRes [] (deser_f64 a v l).
Proof. destruct v; try apply lin_fail_with; apply lin_ret_ok; reflexivity. Qed.
Lemma lin_deser_f32 a v l : LinRes [] (deser_f32 a v l).
Proof. destruct v; try apply lin_fail_with; apply lin_ret_ok; reflexivity. Qed.
Lemma lin_deser_unit a v l : LinRes [] (deser_unit a v l).
Proof. destruct v; try apply lin_fail_with; apply lin_ret_ok; reflexivity. Qed.
Lemma lin_deser_bool a v l : LinRes [] (deser_bool a v l).
Proof. destruct v; try apply lin_fail_with; apply lin_ret_ok; reflexivity. Qed.
Lemma lin_deser_string a v l : LinRes [] (deser_string a v l).
Proof. destruct v; try apply lin_fail_with; apply lin_ret_ok; reflexivity. Qed.
Lemma lin_deser_char a v l : LinRes [] (deser_char a v l).
Proof.
  destruct v; try apply lin_fail_with. unfold deser_char.
  destruct (chars s) as [|c [|c' r]]; try apply lin_fail_with. apply lin_ret_ok; reflexivity.
Qed.
Lemma lin_deser_cs a ep v l : LinRes [] (deser_cs a ep v l).
Proof.
  destruct v; try apply lin_fail_with. unfold deser_cs.
  destruct (parse_cs ep s); [apply lin_ret_ok; reflexivity|apply lin_fail_with].
Qed.

(** *** and_then / map_ok / validate *)
Lemma lin_and_then p f :
  LinRes [] p -> (forall o, LinRes [] (f o)) -> LinRes [] (and_then p f).
Proof.
  intros Hp Hf. unfold and_then. apply Lin_bind0 with (hp := held_res); [exact Hp|].
  intros [o|e|s]; cbn [held_res app].
  - apply Hf.
  - apply lin_ret_err.
  - intros L. apply lin_ret_panic.
Qed.

Lemma lin_map_ok p f : LinRes [] p -> LinRes [] (map_ok p f).
Proof.
  intros Hp. unfold map_ok. apply Lin_bind0 with (hp := held_res); [exact Hp|].
  intros [o|e|s]; cbn [held_res app].
  - apply lin_ret_ok; reflexivity.
  - apply lin_ret_err.
  - intros L. apply lin_ret_panic.
Qed.

Lemma lin_validate a val l o : LinRes [] (validate a val l o).
Proof.
  unfold validate. destruct val as [fn|]; [|apply lin_ret_ok; reflexivity].
  apply Lin_user. destruct (ufail o); [|apply lin_ret_ok; reflexivity].
  apply Lin_op with (L' := []); [reflexivity|]. intros i ans _. cbn [creates]. apply lin_ret_err.
Qed.

(** *** sequences *)
Lemma lin_seq_loop runel a l fin :
  (forall v l', LinRes [] (runel v l')) ->
  (forall os, held_res (fin os) = Some [] \/ held_res (fin os) = None) ->
  forall vs idx acc outs_rev,
    LinRes (held_opt acc) (seq_loop runel a l fin vs idx acc outs_rev).
Proof.
  intros Hel Hfin. induction vs as [|v vs IH]; intros idx acc outs_rev; cbn [seq_loop].
  - constructor. unfold holds. destruct acc as [e|]; cbn; [reflexivity|].
    destruct (Hfin (rev outs_rev)) as [-> | ->]; [reflexivity|exact I].
  - apply Lin_bind0 with (hp := held_res); [apply Hel|].
    intros [o|e|s]; cbn [held_res app].
    + apply IH.
    + eapply Lin_perm; [|apply lin_absorb].
      * apply Permutation_app_comm.
      * intros i. apply (IH (N.succ idx) (Some i)).
      * intros i. apply lin_ret_err.
    + intros L. apply lin_ret_panic.
Qed.

Lemma lin_tuple_loop a l :
  forall items idx acc slots_rev,
    Forall (fun it => forall v l', LinRes [] (fst it v l')) items ->
    LinRes (held_opt acc) (tuple_loop a l items idx acc slots_rev).
Proof.
  induction items as [|[runel v] items IH]; intros idx acc slots_rev Hall; cbn [tuple_loop].
  - constructor. unfold holds. destruct acc as [e|]; cbn; [reflexivity|].
    destruct (forallb _ slots_rev); cbn; [reflexivity|exact I].
  - inversion Hall as [|? ? Hv Hrest]; subst. cbn [fst] in Hv.
    apply Lin_bind0 with (hp := held_res); [apply Hv|].
    intros [o|e|s]; cbn [held_res app].
    + apply IH. exact Hrest.
    + eapply Lin_perm; [|apply lin_absorb].
      * apply Permutation_app_comm.
      * intros i. apply (IH (N.succ idx) (Some i)). exact Hrest.
      * intros i. apply lin_ret_err.
    + intros L. apply lin_ret_panic.
Qed.

Lemma lin_map_loop runel kp tyname a l :
  (forall v l', LinRes [] (runel v l')) ->
  forall ms acc res_map, LinRes (held_opt acc) (map_loop runel kp tyname a l ms acc res_map).
Proof.
  intros Hel. induction ms as [|[k v] ms IH]; intros acc res_map; cbn [map_loop].
  - constructor. unfold holds. destruct acc; cbn; reflexivity.
  - destruct (parse_key kp k) as [ko|err].
    + apply Lin_bind0 with (hp := held_res); [apply Hel|].
      intros [o|e|s]; cbn [held_res app].
      * apply IH.
      * eapply Lin_perm; [|apply lin_absorb].
        -- apply Permutation_app_comm.
        -- intros i. apply (IH (Some i)).
        -- intros i. apply lin_ret_err.
      * intros L. apply lin_ret_panic.
    + apply lin_report.
      * intros i. apply (IH (Some i)).
      * intros i. apply lin_ret_err.
Qed.

(** *** serde_json::Value *)
Lemma lin_deser_json a : forall v l, LinRes [] (deser_json a v l).
Proof.
  fix IH 1. intros v l. destruct v as [| b | x | x | f | s | vs | ms]; cbn [deser_json];
    try (apply lin_ret_ok; reflexivity).
  - destruct (float_is_finite f); [apply lin_ret_ok; reflexivity|apply lin_fail_with].
  - change (@nil N) with (held_opt None). generalize (@None N) as acc. generalize (@nil value) as outs_rev.
    generalize 0%N as idx. induction vs as [|x vs IHvs]; intros idx outs_rev acc.
    + constructor. unfold holds. destruct acc; cbn; reflexivity.
    + apply Lin_bind0 with (hp := held_res); [apply IH|].
      intros [o|e|s]; cbn [held_res app].
      * apply IHvs.
      * eapply Lin_perm; [|apply lin_absorb].
        -- apply Permutation_app_comm.
        -- intros i. apply (IHvs (N.succ idx) outs_rev (Some i)).
        -- intros i. apply lin_ret_err.
      * intros L. apply lin_ret_panic.
  - change (@nil N) with (held_opt None). generalize (@None N) as acc.
    generalize (@nil (string * value)) as jm.
    induction ms as [|[k x] ms IHms]; intros jm acc.
    + constructor. unfold holds. destruct acc; cbn; reflexivity.
    + apply Lin_bind0 with (hp := held_res); [apply IH|].
      intros [o|e|s]; cbn [held_res app].
      * apply IHms.
      * eapply Lin_perm; [|apply lin_absorb].
        -- apply Permutation_app_comm.
        -- intros i. apply (IHms jm (Some i)).
        -- intros i. apply lin_ret_err.
      * intros L. apply lin_ret_panic.
Qed.

(** *** derived structs *)
Definition rfield_lin (f : rfield) : Prop := forall a v l, LinRes [] (rf_run f a v l).

Lemma lin_field_entry a f i k v l acc sts :
  rfield_lin f -> Lin held_step (held_opt acc) (field_entry a f i k v l acc sts).
Proof.
  intros Hf. unfold field_entry. apply Lin_bind0 with (hp := held_res); [apply Hf|].
  intros [x|e|s]; cbn [held_res app].
  - destruct (rf_from f) as [|fn|fn].
    + constructor. cbn. reflexivity.
    + apply Lin_user. constructor. cbn. reflexivity.
    + apply Lin_user. destruct (ufail x); [|constructor; cbn; reflexivity].
      apply Lin_op with (L' := held_opt acc); [reflexivity|].
      intros i1 ans1 _. cbn [creates].
      apply Lin_op with (L' := []).
      * cbn [call_uses]. rewrite app_nil_r. destruct acc; cbn; [apply perm_swap|reflexivity].
      * intros i2 ans2 _. cbn [creates].
        destruct (ans1 && ans2); constructor; cbn; reflexivity.
  - eapply Lin_perm; [|apply lin_absorb].
    + apply Permutation_app_comm.
    + intros i'. constructor. cbn. reflexivity.
    + intros i'. constructor. cbn. reflexivity.
  - intros L. constructor. exact I.
Qed.

Lemma lin_unknown_key a d keys k l acc sts :
  Lin held_step (held_opt acc) (unknown_key a d keys k l acc sts).
Proof.
  unfold unknown_key. destruct d as [| |fn].
  - constructor. cbn. reflexivity.
  - apply lin_report; intros i; constructor; cbn; reflexivity.
  - apply Lin_user. apply lin_report_user; intros i; constructor; cbn; reflexivity.
Qed.

Lemma find_field_in fs k i0 i f : find_field fs k i0 = Some (i, f) -> In f fs.
Proof.
  revert i0. induction fs as [|g fs IH]; intros i0 H; [discriminate|].
  cbn [find_field] in H. destruct (String.eqb (rf_key g) k).
  - inversion H; subst. left; reflexivity.
  - right. eapply IH; exact H.
Qed.

Lemma lin_entries_loop a fs d keys l :
  Forall rfield_lin fs ->
  forall ms acc sts, Lin held_step (held_opt acc) (entries_loop a fs d keys l ms acc sts).
Proof.
  intros Hfs. induction ms as [|[k v] ms IH]; intros acc sts; cbn [entries_loop].
  - constructor. cbn. reflexivity.
  - rewrite <- (app_nil_r (held_opt acc)).
    apply Lin_bind with (hp := held_step) (Lp := held_opt acc) (F := []).
    + destruct (find_field fs k 0) as [[i f]|] eqn:E.
      * apply lin_field_entry. rewrite Forall_forall in Hfs. apply Hfs. eapply find_field_in; exact E.
      * apply lin_unknown_key.
    + intros [acc' sts'|r]; cbn [held_step].
      * rewrite app_nil_r. apply IH.
      * destruct r as [o|e|s]; cbn [held_res]; try (rewrite app_nil_r); try (intros L);
          constructor; cbn; try reflexivity; exact I.
Qed.

Lemma lin_missing_loop a l :
  forall fs sts acc, Lin held_miss (held_opt acc) (missing_loop a l fs sts acc).
Proof.
  induction fs as [|f fs IH]; intros sts acc; cbn [missing_loop].
  - constructor. cbn. reflexivity.
  - destruct sts as [|st sts]; [constructor; cbn; reflexivity|].
    destruct st; try apply IH.
    destruct (rf_missing f) as [fn|].
    + apply Lin_user. apply lin_report_user.
      * intros i. apply (IH sts (Some i)).
      * intros i. constructor. cbn. reflexivity.
    + apply lin_report.
      * intros i. apply (IH sts (Some i)).
      * intros i. constructor. cbn. reflexivity.
Qed.

Lemma lin_construct : forall items outs_rev, Lin held_constr [] (construct items outs_rev).
Proof.
  induction items as [|[[name st] m] items IH]; intros outs_rev; cbn [construct].
  - constructor. cbn. reflexivity.
  - destruct st; try (constructor; exact I).
    destruct m as [fn|]; [apply Lin_user|]; apply IH.
Qed.

Lemma lin_run_fields a fs sk d mk ms l :
  Forall rfield_lin fs -> LinRes [] (run_fields a fs sk d mk ms l).
Proof.
  intros Hfs. unfold run_fields.
  apply Lin_bind0 with (hp := held_step); [apply (lin_entries_loop a fs d _ l Hfs ms None)|].
  intros [acc sts|r]; cbn [held_step].
  - rewrite app_nil_r.
    rewrite <- (app_nil_r (held_opt acc)).
    apply Lin_bind with (hp := held_miss) (F := []); [apply lin_missing_loop|].
    intros [acc'|r]; cbn [held_miss].
    + destruct acc' as [e|]; cbn [held_opt app].
      * apply lin_ret_err.
      * apply Lin_bind0 with (hp := held_constr); [apply lin_construct|].
        intros [fields|r]; cbn [held_constr].
        -- apply lin_ret_ok; reflexivity.
        -- destruct r as [o|e|s]; cbn [held_res]; try (intros L); constructor; cbn; try reflexivity; exact I.
    + destruct r as [o|e|s]; cbn [held_res]; try (rewrite app_nil_r); try (intros L);
        constructor; cbn; try reflexivity; exact I.
  - destruct r as [o|e|s]; cbn [held_res]; try (rewrite app_nil_r); try (intros L);
      constructor; cbn; try reflexivity; exact I.
Qed.

Lemma lin_run_tagged a tag vs v l :
  Forall (fun rv => match rv_data rv with
                    | None => True
                    | Some (fs, _, _) => Forall rfield_lin fs
                    end) vs ->
  LinRes [] (run_tagged a tag vs v l).
Proof.
  intros Hvs. unfold run_tagged. destruct v; try apply lin_fail_with.
  destruct (remove_first tag l0) as [[tv rest]|]; [|apply lin_fail_with].
  destruct tv; try apply lin_fail_with.
  destruct (find_variant vs s) as [rv|] eqn:E; [|apply lin_fail_with].
  assert (Hin : In rv vs).
  { clear Hvs. induction vs as [|x vs IH]; [discriminate|]. cbn [find_variant] in E.
    destruct (String.eqb (rv_key x) s); [inversion E; left; reflexivity|right; apply IH; exact E]. }
  rewrite Forall_forall in Hvs. specialize (Hvs rv Hin).
  destruct (rv_data rv) as [[[fs sk] d]|]; [|apply lin_ret_ok; reflexivity].
  apply lin_run_fields. exact Hvs.
Qed.

Lemma lin_run_unit_enum a vs v l : LinRes [] (run_unit_enum a vs v l).
Proof.
  unfold run_unit_enum. destruct v; try apply lin_fail_with.
  destruct (find_unit vs s); [apply lin_ret_ok; reflexivity|apply lin_fail_with].
Qed.

(** *** the interpreter *)
Theorem deser_lin : forall t a v l, LinRes [] (deser t a v l).
Proof.
  induction t using ty_ind'; intros a v l; cbn [deser].
  - apply lin_deser_unit.
  - apply lin_deser_bool.
  - apply lin_deser_int.
  - apply lin_deser_f32.
  - apply lin_deser_f64.
  - apply lin_deser_char.
  - apply lin_deser_string.
  - apply lin_ret_ok; reflexivity.
  - apply lin_deser_json.
  - destruct v; try apply lin_fail_with.
    refine (lin_seq_loop (deser t a) a l _ (fun v l' => IHt a v l') _ _ 0%N None []). intros os. left. reflexivity.
  - destruct v; try apply lin_fail_with.
    destruct (negb _); [apply lin_fail_with|].
    refine (lin_seq_loop (deser t a) a l _ (fun v l' => IHt a v l') _ _ 0%N None []). intros os.
    destruct (N.eqb _ n); [left|right]; reflexivity.
  - destruct v; try apply lin_fail_with.
    destruct l0 as [|x [|y [|z r]]]; try apply lin_fail_with.
    apply (lin_tuple_loop a l _ 0%N None []). repeat constructor; cbn [fst]; intros; [apply IHt1|apply IHt2].
  - destruct v; try apply lin_fail_with.
    destruct l0 as [|x [|y [|z [|w r]]]]; try apply lin_fail_with.
    apply (lin_tuple_loop a l _ 0%N None []).
    repeat constructor; cbn [fst]; intros; [apply IHt1|apply IHt2|apply IHt3].
  - destruct v; try apply lin_fail_with.
    refine (lin_seq_loop (deser t a) a l _ (fun v l' => IHt a v l') _ _ 0%N None []). intros os. left. reflexivity.
  - destruct v; try apply lin_fail_with.
    refine (lin_seq_loop (deser t a) a l _ (fun v l' => IHt a v l') _ _ 0%N None []). intros os. left. reflexivity.
  - destruct v; try apply lin_fail_with.
    apply (lin_map_loop (deser t a) kp n a l (fun v l' => IHt a v l') _ None).
  - destruct v; try (apply lin_map_ok; apply IHt). apply lin_ret_ok; reflexivity.
  - apply IHt.
  - apply lin_deser_cs.
  - (* struct *)
    apply lin_and_then; [|intros o; apply lin_validate].
    destruct v; try apply lin_fail_with. apply lin_run_fields.
    unfold Pfields in H. rewrite Forall_forall in *. intros rf Hin.
    apply in_map_iff in Hin. destruct Hin as [cf [<- Hcf]]. intros a' v' l'. cbn [rf_run].
    apply (H cf Hcf).
  - (* tagged enum *)
    apply lin_and_then; [|intros o; apply lin_validate].
    apply lin_run_tagged. rewrite Forall_forall in *. intros rv Hin.
    apply in_map_iff in Hin. destruct Hin as [cv [<- Hcv]]. cbn [rv_data].
    specialize (H cv Hcv). unfold Pvariant in H. destruct (cv_data cv) as [|s]; [exact I|].
    unfold Pfields in H. rewrite Forall_forall in *. intros rf Hin.
    apply in_map_iff in Hin. destruct Hin as [cf [<- Hcf]]. intros a' v' l'. cbn [rf_run].
    apply (H cf Hcf).
  - apply lin_and_then; [apply lin_run_unit_enum|intros o; apply lin_validate].
  - apply lin_and_then; [apply IHt|]. intros o. apply Lin_user. apply lin_validate.
  - apply lin_and_then; [apply IHt|]. intros o. apply Lin_user.
    destruct (ufail o); [|apply lin_validate].
    apply Lin_op with (L' := []); [reflexivity|]. intros i ans _. cbn [creates]. apply lin_ret_err.
Qed.
