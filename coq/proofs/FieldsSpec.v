(** What the specification of derived structs says, field by field (C07, C08, C09): a field is
    filled from the member carrying exactly its effective key and from nothing else; an absent key
    leaves the default; an unknown key is exactly one report; skipped fields come from their
    default alone. Together with the refinement theorem this is what the interpreter does. *)
From Coq Require Import Permutation.
From Deserr Require Import Base Pointer Kinds Value Prog Utf8 Scalars ScalarSpec Types Deser Spec Monitors.
From Deserr.proofs Require Import RefineFields C15Base C15Fields.
Local Open Scope list_scope.

(** *** the field that a key selects *)
Lemma sp_find_own fs : forall i0 i f,
  NoDup (map sp_key fs) -> nth_error fs i = Some f -> sp_find fs (sp_key f) i0 = Some ((i0 + i)%nat, f).
Proof.
  induction fs as [|g fs IH]; intros i0 i f Hnd Hn; [destruct i; discriminate|].
  cbn [map] in Hnd. inversion Hnd as [|? ? Hni Hnd']; subst. destruct i; cbn [nth_error sp_find] in *.
  - inversion Hn; subst. rewrite String.eqb_refl, Nat.add_0_r. reflexivity.
  - destruct (String.eqb (sp_key g) (sp_key f)) eqn:E.
    + exfalso. apply String.eqb_eq in E. apply Hni. rewrite E. apply in_map. eapply nth_error_In; exact Hn.
    + rewrite (IH (S i0) i f Hnd' Hn). f_equal. f_equal. lia.
Qed.

(** a member fills field [i] exactly when its key is the effective key of field [i] *)
Lemma hits_iff_own_key fs d l i f k v :
  NoDup (map sp_key fs) -> nth_error fs i = Some f ->
  hits i (s_member fs d l (k, v)) = String.eqb k (sp_key f).
Proof.
  intros Hnd Hn. rewrite s_member_unfold. unfold hits.
  destruct (String.eqb k (sp_key f)) eqn:E.
  - apply String.eqb_eq in E. subst k. rewrite (sp_find_own fs 0 i f Hnd Hn). cbn [fst]. apply Nat.eqb_refl.
  - destruct (sp_find fs k 0) as [[j g]|] eqn:Ef; cbn [fst]; [|reflexivity].
    destruct (Nat.eqb i j) eqn:Eij; [|reflexivity]. apply Nat.eqb_eq in Eij. subst j.
    destruct (sp_find_key fs k 0 i g Ef) as (Hk & Hg & _). rewrite Nat.sub_0_r in Hg. rewrite Hn in Hg. inversion Hg; subst g.
    rewrite Hk, String.eqb_refl in E. discriminate.
Qed.

(** the members that fill field i, in terms of the payload *)
Lemma filter_hits_payload fs d l i f ms :
  NoDup (map sp_key fs) -> nth_error fs i = Some f ->
  filter (hits i) (map (s_member fs d l) ms)
  = map (s_member fs d l) (filter (fun kv : string * value => String.eqb (fst kv) (sp_key f)) ms).
Proof.
  intros Hnd Hn. induction ms as [|[k v] ms IH]; [reflexivity|]. cbn [map filter fst].
  rewrite (hits_iff_own_key fs d l i f k v Hnd Hn). destruct (String.eqb k (sp_key f)); cbn [map]; rewrite IH; reflexivity.
Qed.

Lemma filter_key_lookup (ms : list (string * value)) k :
  NoDup (map fst ms) ->
  filter (fun kv : string * value => String.eqb (fst kv) k) ms
  = match lookup_key k ms with Some v => [(k, v)] | None => [] end.
Proof.
  induction ms as [|[k' v'] ms IH]; intros Hnd; [reflexivity|]. cbn [map fst] in Hnd. inversion Hnd as [|? ? Hni Hnd']; subst.
  cbn [filter lookup_key fst]. destruct (String.eqb k' k) eqn:E.
  - apply String.eqb_eq in E. subst k'. rewrite (IH Hnd').
    destruct (lookup_key k ms) as [v|] eqn:El; [|reflexivity]. exfalso. apply Hni.
    clear - El. induction ms as [|[k2 v2] ms IHm]; [discriminate|]. cbn [lookup_key map fst] in *.
    destruct (String.eqb k2 k) eqn:E2; [left; apply String.eqb_eq; exact E2|right; apply IHm; exact El].
  - apply IH. exact Hnd'.
Qed.

(** C07 / C08: with distinct effective keys and distinct payload keys, the value field [i] ends
    with is the result of the one member carrying its effective key - whatever the other members
    are - and its default when no member carries that key *)
Theorem field_filled_from_own_key fs d l i f ms :
  NoDup (map sp_key fs) -> NoDup (map fst ms) -> nth_error fs i = Some f ->
  s_field_value i f (map (s_member fs d l) ms)
  = match lookup_key (sp_key f) ms with
    | Some v => Some (s_out (snd (s_member fs d l (sp_key f, v))))
    | None => match sp_default f with FDValue o => Some (Some o) | FDMissing => None end
    end.
Proof.
  intros Hf Hm Hn. rewrite s_field_value_unfold, (filter_hits_payload fs d l i f ms Hf Hn), (filter_key_lookup ms (sp_key f) Hm).
  destruct (lookup_key (sp_key f) ms) as [v|]; reflexivity.
Qed.

(** what the member carrying the field's own key yields: the specification of the field's type at
    the key's location, then the field-level conversion *)
Theorem own_member_result fs d l i f v :
  NoDup (map sp_key fs) -> nth_error fs i = Some f ->
  s_member fs d l (sp_key f, v)
  = (Some i,
     let r := sp_run f v (Key (sp_key f) l) in
     match s_out r with
     | None => r
     | Some x =>
       match sp_from f with
       | FFNone => r
       | FFFrom fn => mkS (Some (OFn fn x)) [] (s_ucalls r ++ [(fn, [AOut x])])
       | FFTry fn =>
         if ufail x then mkS None [FUser (fn, [AOut x]) (Key (sp_key f) l)] (s_ucalls r ++ [(fn, [AOut x])])
         else mkS (Some (OFn fn x)) [] (s_ucalls r ++ [(fn, [AOut x])])
       end
     end).
Proof. intros Hf Hn. rewrite s_member_unfold, (sp_find_own fs 0 i f Hf Hn). reflexivity. Qed.

(** C09: a member whose key is the effective key of no field is, under deny_unknown_fields,
    exactly one UnknownKey report at the container's location listing the accepted keys; without
    the attribute it is nothing at all; with a user function, one call with (key, accepted keys,
    location) whose result is handed over at the container's location *)
Theorem unknown_member_result fs d l k v :
  (forall f, In f fs -> sp_key f <> k) ->
  s_member fs d l (k, v)
  = (None,
     match d with
     | DenyNo => mkS None [] []
     | DenyDefault => s_fault (FKind (UnknownKey k (map sp_key fs)) l)
     | DenyFn fn =>
       let args := [AStr k; AStrs (map sp_key fs); ALoc (to_owned l)] in
       mkS None [FUser (fn, args) l] [(fn, args)]
     end).
Proof.
  intros Hno. rewrite s_member_unfold. destruct (sp_find fs k 0) as [[i f]|] eqn:E; [|reflexivity].
  exfalso. destruct (sp_find_key fs k 0 i f E) as (Hk & Hn & _). apply (Hno f); [eapply nth_error_In; exact Hn|exact Hk].
Qed.

Lemma all_some_app_l {A} (a b : list (option A)) os : all_some (a ++ b) = Some os -> exists oa, all_some a = Some oa.
Proof.
  revert os. induction a as [|[x|] a IH]; intros os H; [exists []; reflexivity| |discriminate].
  cbn [app all_some] in *. destruct (all_some (a ++ b)) as [xs|] eqn:E; [|discriminate].
  destruct (IH xs eq_refl) as [oa Hoa]. rewrite Hoa. exists (x :: oa). reflexivity.
Qed.

Lemma spec_outs_toS items :
  (exists os, all_some (map (fun x : string * option out * list (N * list uarg) => snd (fst x)) (spec_outs items)) = Some os) ->
  exists v3, items = map toS v3.
Proof.
  induction items as [|[[n o] m] items IH]; intros [os H]; [exists []; reflexivity|].
  unfold spec_outs in H. cbn [map] in H. fold (spec_outs items) in H. destruct o as [o|].
  - assert (Hr : exists xs, all_some (map (fun x : string * option out * list (N * list uarg) => snd (fst x)) (spec_outs items)) = Some xs).
    { destruct m; cbn [fst snd all_some] in H;
        destruct (all_some (map (fun x : string * option out * list (N * list uarg) => snd (fst x)) (spec_outs items))) as [xs|]; try discriminate; exists xs; reflexivity. }
    destruct (IH Hr) as [v3 ->]. exists ((n, o, m) :: v3). reflexivity.
  - cbn [fst snd all_some] in H. discriminate.
Qed.

(** C08: the shape of a successful struct: the non-skipped fields in declaration order, each with
    its value (through its [map] function), followed by the skipped fields, each built from its
    default alone (through its [map] function) - the payload has no influence on them *)
Definition field_item (p : spfield * option (option out)) : string * option out * option N :=
  (sp_name (fst p), match snd p with Some (Some o) => Some o | _ => None end, sp_map (fst p)).
Definition skipped_item (s : sfield) : string * out * option N := (sf_name s, sf_default s, sf_map s).

Theorem struct_value_shape fs sk d mk ms l o :
  s_out (s_fields fs sk d mk ms l) = Some o ->
  let members := map (s_member fs d l) ms in
  let vals := map (fun p => s_field_value (fst p) (snd p) members) (indexed_nat fs) in
  exists v3,
    map field_item (combine fs vals) = map toS v3
    /\ o = mk (map built_field (v3 ++ map skipped_item sk)).
Proof.
  cbv zeta. unfold s_fields. cbv zeta.
  set (members := map (s_member fs d l) ms).
  set (vals := map (fun p => s_field_value (fst p) (snd p) members) (indexed_nat fs)).
  match goal with |- s_out (match ?F with [] => _ | _ => _ end) = _ -> _ => destruct F; [|cbn [s_out]; intros Hd; discriminate Hd] end.
  cbn [s_out]. fold (map field_item (combine fs vals)).
  change (map (fun p : spfield * option (option out) =>
                 (sp_name (fst p), match snd p with Some (Some o0) => Some o0 | _ => None end, sp_map (fst p))) (combine fs vals))
    with (map field_item (combine fs vals)).
  assert (Hsk : map (fun s : sfield => (sf_name s, Some (sf_default s), sf_map s)) sk = map toS (map skipped_item sk))
    by (rewrite map_map; reflexivity).
  rewrite Hsk. fold (spec_outs (map field_item (combine fs vals) ++ map toS (map skipped_item sk))).
  intros H.
  (* every field item has a value, otherwise all_some fails *)
  assert (Hex : exists v3, map field_item (combine fs vals) = map toS v3).
  { apply spec_outs_toS. unfold spec_outs in H |- *. rewrite !map_app in H.
    match type of H with option_map _ (all_some (?A ++ ?B)) = _ => destruct (all_some (A ++ B)) as [os|] eqn:Ea end.
    - apply all_some_app_l in Ea. exact Ea.
    - cbn [option_map] in H. discriminate H. }
  destruct Hex as [v3 Hv3]. exists v3. split; [exact Hv3|].
  rewrite Hv3, <- map_app in H. destruct (spec_outs_values (v3 ++ map skipped_item sk)) as (Ho1 & Ho2 & _).
  rewrite Ho1, Ho2 in H. cbn [option_map] in H. rewrite combine_fst_snd in H. inversion H. reflexivity.
Qed.

(** *** without the hypothesis of distinct effective keys (two fields may claim one key: the derive
    accepts it) *)
Lemma sp_find_first fs k : forall i0 i f, sp_find fs k i0 = Some (i, f) ->
  forall j g, (j < i - i0)%nat -> nth_error fs j = Some g -> sp_key g <> k.
Proof.
  induction fs as [|h fs IH]; intros i0 i f H j g Hj Hn; [discriminate|]. cbn [sp_find] in H.
  destruct (String.eqb (sp_key h) k) eqn:E.
  - inversion H; subst. lia.
  - destruct j as [|j]; cbn [nth_error] in Hn.
    + inversion Hn; subst. intros Hk. rewrite Hk, String.eqb_refl in E. discriminate.
    + apply (IH (S i0) i f H j g); [|exact Hn]. destruct (sp_find_key fs k (S i0) i f H) as (_ & _ & Hle). lia.
Qed.

(** C07, "from no other entry", for every field list: a member can only fill a field whose
    effective key is exactly the member's key - and it fills the first field declared with that key *)
Theorem member_fills_first_claimant fs d l k v i :
  fst (s_member fs d l (k, v)) = Some i ->
  exists f, nth_error fs i = Some f /\ sp_key f = k
            /\ forall j g, (j < i)%nat -> nth_error fs j = Some g -> sp_key g <> k.
Proof.
  rewrite s_member_unfold. destruct (sp_find fs k 0) as [[j f]|] eqn:E; cbn [fst]; [|discriminate].
  intros H. inversion H; subst j. destruct (sp_find_key fs k 0 i f E) as (Hk & Hn & _). rewrite Nat.sub_0_r in Hn.
  exists f. split; [exact Hn|]. split; [exact Hk|]. intros j g Hj Hg.
  apply (sp_find_first fs k 0 i f E j g); [lia|exact Hg].
Qed.

(** ... and a member whose key is the effective key of some field fills a field *)
Theorem member_with_claimed_key_fills fs d l k v f :
  In f fs -> sp_key f = k -> exists i, fst (s_member fs d l (k, v)) = Some i.
Proof.
  intros Hin Hk. rewrite s_member_unfold. destruct (sp_find fs k 0) as [[j g]|] eqn:E; cbn [fst]; [exists j; reflexivity|].
  exfalso. clear - Hin Hk E. revert E. generalize 0%nat. induction fs as [|h fs IH]; intros i0 E; [destruct Hin|].
  cbn [sp_find] in E. destruct (String.eqb (sp_key h) k) eqn:Eh; [discriminate|].
  destruct Hin as [->|Hin]; [rewrite Hk, String.eqb_refl in Eh; discriminate|]. exact (IH Hin (S i0) E).
Qed.
