(** The interpreter obeys the stop discipline of StopProofs.v (C03). *)
From Deserr Require Import Base Pointer Kinds Value Prog Utf8 Scalars Types Deser Monitors.
From Deserr.proofs Require Import ProgProofs TyInd DeserLin StopProofs.
Local Open Scope list_scope.

Definition cres (r : res) (e : N) : Prop := r = RErr e.
Definition cstep (s : step_out) (e : N) : Prop := s = SStop (RErr e).
Definition cmiss (m : option N + res) (e : N) : Prop := m = inr (RErr e).
Definition cconstr (c : list (string * out) + res) (e : N) : Prop := c = inr (RErr e).

Notation StopsRes := (Stops cres).

Lemma st_ret r : StopsRes (Ret r).
Proof. apply Stops_ret. Qed.

Lemma tail_ret_err i : Tail cres i (Ret (RErr i)).
Proof. apply Tail_ret. reflexivity. Qed.

Lemma st_fail_with a k l : StopsRes (fail_with a k l).
Proof. unfold fail_with. apply Stops_op; [intros; apply st_ret|intros _ i; apply tail_ret_err]. Qed.

(** a decision point: an error-creating call whose Break branch returns the new error *)
Lemma st_decide {X} (cr : X -> N -> Prop) c (go : N -> prog X) (stop : N -> prog X) :
  (forall i, Stops cr (go i)) -> (forall i, Stops cr (stop i)) -> (forall i, Tail cr i (stop i)) ->
  Stops cr (Op c (fun i ans => if ans then go i else stop i)).
Proof.
  intros Hgo Hstop Ht. apply Stops_op; [intros i [|]; [apply Hgo|apply Hstop]|intros _ i; apply Ht].
Qed.

Lemma st_absorb {X} (cr : X -> N -> Prop) a acc oalg e loc go stop :
  (forall i, Stops cr (go (Some i))) -> (forall i, Stops cr (stop i)) -> (forall i, Tail cr i (stop i)) ->
  Stops cr (absorb a acc oalg e loc go stop).
Proof. intros. unfold absorb. apply (st_decide cr _ (fun i => go (Some i)) stop); assumption. Qed.

Lemma tail_absorb {X} (cr : X -> N -> Prop) a acc oalg e loc go stop :
  (forall i, Tail cr i (stop i)) -> Tail cr e (absorb a acc oalg e loc go stop).
Proof. intros H. unfold absorb. apply Tail_merge. exact H. Qed.

Lemma st_report {X} (cr : X -> N -> Prop) a acc k loc go stop :
  (forall i, Stops cr (go (Some i))) -> (forall i, Stops cr (stop i)) -> (forall i, Tail cr i (stop i)) ->
  Stops cr (report a acc k loc go stop).
Proof. intros. unfold report. apply (st_decide cr _ (fun i => go (Some i)) stop); assumption. Qed.

Lemma st_report_user {X} (cr : X -> N -> Prop) a acc u loc go stop :
  (forall i, Stops cr (go (Some i))) -> (forall i, Stops cr (stop i)) -> (forall i, Tail cr i (stop i)) ->
  Stops cr (report_user a acc u loc go stop).
Proof. intros. unfold report_user. apply (st_decide cr _ (fun i => go (Some i)) stop); assumption. Qed.

(** *** scalars *)
Lemma st_deser_int a d v l : StopsRes (deser_int a d v l).
Proof.
  unfold deser_int. destruct v; try apply st_fail_with;
    repeat match goal with
           | |- StopsRes (if ?c then _ else _) => destruct c
           end; try apply st_fail_with; apply st_ret.
Qed.
Lemma st_deser_f64 a v l : StopsRes (deser_f64 a v l).
Proof. destruct v; try apply st_fail_with; apply st_ret. Qed.
Lemma st_deser_f32 a v l : StopsRes (deser_f32 a v l).
Proof. destruct v; try apply st_fail_with; apply st_ret. Qed.
Lemma st_deser_unit a v l : StopsRes (deser_unit a v l).
Proof. destruct v; try apply st_fail_with; apply st_ret. Qed.
Lemma st_deser_bool a v l : StopsRes (deser_bool a v l).
Proof. destruct v; try apply st_fail_with; apply st_ret. Qed.
Lemma st_deser_string a v l : StopsRes (deser_string a v l).
Proof. destruct v; try apply st_fail_with; apply st_ret. Qed.
Lemma st_deser_char a v l : StopsRes (deser_char a v l).
Proof.
  destruct v; try apply st_fail_with. unfold deser_char.
  destruct (chars s) as [|c [|c' r]]; try apply st_fail_with. apply st_ret.
Qed.
Lemma st_deser_cs a ep v l : StopsRes (deser_cs a ep v l).
Proof.
  destruct v; try apply st_fail_with. unfold deser_cs.
  destruct (parse_cs ep s); [apply st_ret|apply st_fail_with].
Qed.

(** *** and_then / map_ok / validate *)
Lemma st_and_then p f : StopsRes p -> (forall o, StopsRes (f o)) -> StopsRes (and_then p f).
Proof.
  intros Hp Hf. unfold and_then. apply Stops_bind with (cp := cres); [exact Hp| |].
  - intros [o|e|s]; [apply Hf|apply st_ret|apply st_ret].
  - intros xr e Hx; red in Hx; subst xr; cbn beta iota. apply tail_ret_err.
Qed.

Lemma st_map_ok p f : StopsRes p -> StopsRes (map_ok p f).
Proof.
  intros Hp. unfold map_ok. apply Stops_bind with (cp := cres); [exact Hp|intros x; apply st_ret|].
  intros xr e Hx; red in Hx; subst xr; cbn beta iota. apply tail_ret_err.
Qed.

Lemma st_validate a val l o : StopsRes (validate a val l o).
Proof.
  unfold validate. destruct val as [fn|]; [|apply st_ret].
  apply Stops_user. destruct (ufail o); [|apply st_ret].
  apply Stops_op; [intros; apply st_ret|intros _ i; apply tail_ret_err].
Qed.

(** *** loops over children *)
Lemma st_seq_loop runel a l fin :
  (forall v l', StopsRes (runel v l')) ->
  forall vs idx acc outs_rev, StopsRes (seq_loop runel a l fin vs idx acc outs_rev).
Proof.
  intros Hel. induction vs as [|v vs IH]; intros idx acc outs_rev; cbn [seq_loop]; [apply st_ret|].
  apply Stops_bind with (cp := cres); [apply Hel| |].
  - intros [o|e|s]; [apply IH| |apply st_ret].
    apply st_absorb; [intros i; apply IH|intros i; apply st_ret|intros i; apply tail_ret_err].
  - intros xr e Hx; red in Hx; subst xr; cbn beta iota. apply tail_absorb. intros i. apply tail_ret_err.
Qed.

Lemma st_tuple_loop a l :
  forall items idx acc slots_rev,
    Forall (fun it => forall v l', StopsRes (fst it v l')) items ->
    StopsRes (tuple_loop a l items idx acc slots_rev).
Proof.
  induction items as [|[runel v] items IH]; intros idx acc slots_rev Hall; cbn [tuple_loop]; [apply st_ret|].
  inversion Hall as [|? ? Hv Hrest]; subst. cbn [fst] in Hv.
  apply Stops_bind with (cp := cres); [apply Hv| |].
  - intros [o|e|s]; [apply IH; exact Hrest| |apply st_ret].
    apply st_absorb; [intros i; apply IH; exact Hrest|intros i; apply st_ret|intros i; apply tail_ret_err].
  - intros xr e Hx; red in Hx; subst xr; cbn beta iota. apply tail_absorb. intros i. apply tail_ret_err.
Qed.

Lemma st_map_loop runel kp tyname a l :
  (forall v l', StopsRes (runel v l')) ->
  forall ms acc res_map, StopsRes (map_loop runel kp tyname a l ms acc res_map).
Proof.
  intros Hel. induction ms as [|[k v] ms IH]; intros acc res_map; cbn [map_loop]; [apply st_ret|].
  destruct (parse_key kp k) as [ko|err].
  - apply Stops_bind with (cp := cres); [apply Hel| |].
    + intros [o|e|s]; [apply IH| |apply st_ret].
      apply st_absorb; [intros i; apply IH|intros i; apply st_ret|intros i; apply tail_ret_err].
    + intros xr e Hx; red in Hx; subst xr; cbn beta iota. apply tail_absorb. intros i. apply tail_ret_err.
  - apply st_report; [intros i; apply IH|intros i; apply st_ret|intros i; apply tail_ret_err].
Qed.

(** *** serde_json::Value *)
Lemma st_deser_json a : forall v l, StopsRes (deser_json a v l).
Proof.
  fix IH 1. intros v l. destruct v as [| b | x | x | f | s | vs | ms]; cbn [deser_json]; try apply st_ret.
  - destruct (float_is_finite f); [apply st_ret|apply st_fail_with].
  - generalize (@None N) as acc. generalize (@nil value) as outs_rev. generalize 0%N as idx.
    induction vs as [|x vs IHvs]; intros idx outs_rev acc; [apply st_ret|].
    apply Stops_bind with (cp := cres); [apply IH| |].
    + intros [o|e|s]; [apply IHvs| |apply st_ret].
      apply st_absorb; [intros i; apply IHvs|intros i; apply st_ret|intros i; apply tail_ret_err].
    + intros xr e Hx; red in Hx; subst xr; cbn beta iota. apply tail_absorb. intros i. apply tail_ret_err.
  - generalize (@None N) as acc. generalize (@nil (string * value)) as jm.
    induction ms as [|[k x] ms IHms]; intros jm acc; [apply st_ret|].
    apply Stops_bind with (cp := cres); [apply IH| |].
    + intros [o|e|s]; [apply IHms| |apply st_ret].
      apply st_absorb; [intros i; apply IHms|intros i; apply st_ret|intros i; apply tail_ret_err].
    + intros xr e Hx; red in Hx; subst xr; cbn beta iota. apply tail_absorb. intros i. apply tail_ret_err.
Qed.

(** *** derived structs *)
Definition rfield_st (f : rfield) : Prop := forall a v l, StopsRes (rf_run f a v l).

Lemma tail_stop_step i : Tail cstep i (Ret (SStop (RErr i))).
Proof. apply Tail_ret. reflexivity. Qed.

Lemma st_field_entry a f i k v l acc sts : rfield_st f -> Stops cstep (field_entry a f i k v l acc sts).
Proof.
  intros Hf. unfold field_entry. apply Stops_bind with (cp := cres); [apply Hf| |].
  - intros [x|e|s]; [| |apply Stops_ret].
    + destruct (rf_from f) as [|fn|fn]; [apply Stops_ret|apply Stops_user; apply Stops_ret|].
      apply Stops_user. destruct (ufail x); [|apply Stops_ret].
      apply Stops_op.
      * intros i1 ans1. apply Stops_op.
        -- intros i2 ans2. destruct (ans1 && ans2); apply Stops_ret.
        -- intros _ i2. rewrite Bool.andb_false_r. apply tail_stop_step.
      * intros _ i1. apply Tail_merge. intros i2. cbn [andb]. apply tail_stop_step.
    + apply st_absorb; [intros i'; apply Stops_ret|intros i'; apply Stops_ret|intros i'; apply tail_stop_step].
  - intros xr e Hx; red in Hx; subst xr; cbn beta iota. apply tail_absorb. intros i'. apply tail_stop_step.
Qed.

Lemma st_unknown_key a d keys k l acc sts : Stops cstep (unknown_key a d keys k l acc sts).
Proof.
  unfold unknown_key. destruct d as [| |fn]; [apply Stops_ret| |apply Stops_user];
    [apply st_report|apply st_report_user]; try (intros i; apply Stops_ret); intros i; apply tail_stop_step.
Qed.

Lemma st_entries_loop a fs d keys l :
  Forall rfield_st fs -> forall ms acc sts, Stops cstep (entries_loop a fs d keys l ms acc sts).
Proof.
  intros Hfs. induction ms as [|[k v] ms IH]; intros acc sts; cbn [entries_loop]; [apply Stops_ret|].
  apply Stops_bind with (cp := cstep).
  - destruct (find_field fs k 0) as [[i f]|] eqn:E; [|apply st_unknown_key].
    apply st_field_entry. rewrite Forall_forall in Hfs. apply Hfs. eapply find_field_in; exact E.
  - intros [acc' sts'|r]; [apply IH|apply Stops_ret].
  - intros xr e Hx; red in Hx; subst xr; cbn beta iota. apply tail_stop_step.
Qed.

Lemma st_missing_loop a l : forall fs sts acc, Stops cmiss (missing_loop a l fs sts acc).
Proof.
  induction fs as [|f fs IH]; intros sts acc; cbn [missing_loop]; [apply Stops_ret|].
  destruct sts as [|st sts]; [apply Stops_ret|]. destruct st; try apply IH.
  destruct (rf_missing f) as [fn|]; [apply Stops_user; apply st_report_user|apply st_report];
    try (intros i; apply IH); try (intros i; apply Stops_ret); intros i; apply Tail_ret; reflexivity.
Qed.

Lemma st_construct : forall items outs_rev, Stops cconstr (construct items outs_rev).
Proof.
  induction items as [|[[name st] m] items IH]; intros outs_rev; cbn [construct]; [apply Stops_ret|].
  destruct st; try apply Stops_ret. destruct m as [fn|]; [apply Stops_user|]; apply IH.
Qed.

Lemma construct_never_err : forall items outs_rev script s e, fst (run script (construct items outs_rev) s) <> inr (RErr e).
Proof.
  induction items as [|[[name st] m] items IH]; intros outs_rev script s e; cbn [construct]; [cbn; discriminate|].
  destruct st; try (cbn; discriminate). destruct m as [fn|]; [rewrite run_user_call|]; apply IH.
Qed.

Lemma st_run_fields a fs sk d mk ms l : Forall rfield_st fs -> StopsRes (run_fields a fs sk d mk ms l).
Proof.
  intros Hfs. unfold run_fields. apply Stops_bind with (cp := cstep); [apply st_entries_loop; exact Hfs| |].
  - intros [acc sts|r]; [|apply st_ret].
    apply Stops_bind with (cp := cmiss); [apply st_missing_loop| |].
    + intros [[e|]|r]; [apply st_ret| |apply st_ret].
      apply Stops_bind with (cp := cconstr); [apply st_construct| |].
      * intros [fields|r]; apply st_ret.
      * intros xr e Hx; red in Hx; subst xr; cbn beta iota. apply tail_ret_err.
    + intros xr e Hx; red in Hx; subst xr; cbn beta iota. apply tail_ret_err.
  - intros xr e Hx; red in Hx; subst xr; cbn beta iota. apply tail_ret_err.
Qed.

Lemma st_run_tagged a tag vs v l :
  Forall (fun rv => match rv_data rv with
                    | None => True
                    | Some (fs, _, _) => Forall rfield_st fs
                    end) vs ->
  StopsRes (run_tagged a tag vs v l).
Proof.
  intros Hvs. unfold run_tagged. destruct v; try apply st_fail_with.
  destruct (remove_first tag l0) as [[tv rest]|]; [|apply st_fail_with].
  destruct tv; try apply st_fail_with.
  destruct (find_variant vs s) as [rv|] eqn:E; [|apply st_fail_with].
  assert (Hin : In rv vs).
  { clear Hvs. induction vs as [|x vs IH]; [discriminate|]. cbn [find_variant] in E.
    destruct (String.eqb (rv_key x) s); [inversion E; left; reflexivity|right; apply IH; exact E]. }
  rewrite Forall_forall in Hvs. specialize (Hvs rv Hin).
  destruct (rv_data rv) as [[[fs sk] d]|]; [|apply st_ret]. apply st_run_fields. exact Hvs.
Qed.

Lemma st_run_unit_enum a vs v l : StopsRes (run_unit_enum a vs v l).
Proof.
  unfold run_unit_enum. destruct v; try apply st_fail_with.
  destruct (find_unit vs s); [apply st_ret|apply st_fail_with].
Qed.

(** *** the interpreter *)
Theorem deser_stops : forall t a v l, StopsRes (deser t a v l).
Proof.
  induction t using ty_ind'; intros a v l; cbn [deser].
  - apply st_deser_unit.
  - apply st_deser_bool.
  - apply st_deser_int.
  - apply st_deser_f32.
  - apply st_deser_f64.
  - apply st_deser_char.
  - apply st_deser_string.
  - apply st_ret.
  - apply st_deser_json.
  - destruct v; try apply st_fail_with. apply st_seq_loop. intros v l'. apply IHt.
  - destruct v; try apply st_fail_with. destruct (negb _); [apply st_fail_with|]. apply st_seq_loop. intros v l'. apply IHt.
  - destruct v; try apply st_fail_with. destruct l0 as [|x [|y [|z r]]]; try apply st_fail_with.
    apply st_tuple_loop. repeat constructor; cbn [fst]; intros; [apply IHt1|apply IHt2].
  - destruct v; try apply st_fail_with. destruct l0 as [|x [|y [|z [|w r]]]]; try apply st_fail_with.
    apply st_tuple_loop. repeat constructor; cbn [fst]; intros; [apply IHt1|apply IHt2|apply IHt3].
  - destruct v; try apply st_fail_with. apply st_seq_loop. intros v l'. apply IHt.
  - destruct v; try apply st_fail_with. apply st_seq_loop. intros v l'. apply IHt.
  - destruct v; try apply st_fail_with. apply st_map_loop. intros v l'. apply IHt.
  - destruct v; try (apply st_map_ok; apply IHt). apply st_ret.
  - apply IHt.
  - apply st_deser_cs.
  - apply st_and_then; [|intros o; apply st_validate].
    destruct v; try apply st_fail_with. apply st_run_fields.
    unfold Pfields in H. rewrite Forall_forall in *. intros rf Hin.
    apply in_map_iff in Hin. destruct Hin as [cf [<- Hcf]]. intros a' v' l'. cbn [rf_run]. apply (H cf Hcf).
  - apply st_and_then; [|intros o; apply st_validate].
    apply st_run_tagged. rewrite Forall_forall in *. intros rv Hin.
    apply in_map_iff in Hin. destruct Hin as [cv [<- Hcv]]. cbn [rv_data].
    specialize (H cv Hcv). unfold Pvariant in H. destruct (cv_data cv) as [|s]; [exact I|].
    unfold Pfields in H. rewrite Forall_forall in *. intros rf Hin.
    apply in_map_iff in Hin. destruct Hin as [cf [<- Hcf]]. intros a' v' l'. cbn [rf_run]. apply (H cf Hcf).
  - apply st_and_then; [apply st_run_unit_enum|intros o; apply st_validate].
  - apply st_and_then; [apply IHt|]. intros o. apply Stops_user. apply st_validate.
  - apply st_and_then; [apply IHt|]. intros o. apply Stops_user. destruct (ufail o); [|apply st_validate].
    apply Stops_op; [intros; apply st_ret|intros _ i; apply tail_ret_err].
Qed.

(** Once the answers are all Break (from call [k] on), the first error-creating call at or
    after [k] is followed by hand-overs only - each passing on the result of the call before it -
    and the result of the last call is what [deserialize] returns. *)
Theorem deserialize_stop_ends_the_work : forall t v script k,
  (forall j, (k <= j)%N -> script j = false) ->
  c03_tail_ok k (fst (run script (deserialize t v) [])) (snd (run script (deserialize t v) [])) = true.
Proof. intros t v script k H. apply stops_tail_ok; [apply deser_stops|exact H]. Qed.

(** Under EVERY script: a report (or hand-over) answered Break is immediately followed by the
    hand-over of its result to the enclosing container - or it is the last call and its result is
    what [deserialize] returns. Nothing else happens in between. *)
Theorem deserialize_stop_next : forall t v script pre c post,
  snd (run script (deserialize t v) []) = pre ++ c :: post ->
  creates c = true -> script (N.of_nat (List.length pre)) = false ->
  next_ok (N.of_nat (List.length pre)) post
  /\ (post = [] -> fst (run script (deserialize t v) []) = RErr (N.of_nat (List.length pre))).
Proof.
  intros t v script pre c post Hrun Hc Hsc.
  apply (stops_next cres (deserialize t v) (deser_stops t 0%N v Origin) script [] (pre ++ c :: post) Hrun pre c post eq_refl Hc Hsc).
Qed.
