(** C04: basic facts about locations, resolution and the truth of single reports. *)
From Deserr Require Import Base Pointer Kinds Value Prog Utf8 Scalars Types Deser Monitors C04Defs.
From Deserr.proofs Require Import ProgProofs LeavesProofs.

Lemma to_owned_key k l : to_owned (Key k l) = to_owned l ++ [SKey k].
Proof. reflexivity. Qed.
Lemma to_owned_index i l : to_owned (Index i l) = to_owned l ++ [SIndex i].
Proof. reflexivity. Qed.

Lemma resolve_app root p q :
  resolve root (p ++ q) = match resolve root p with Some v => resolve v q | None => None end.
Proof.
  revert root. induction p as [|s p IH]; intros root; [reflexivity|].
  cbn [app resolve]. destruct s as [k|i].
  - destruct root; try reflexivity. destruct (lookup_key k l); [apply IH|reflexivity].
  - destruct root; try reflexivity. destruct (nth_opt l (N.to_nat i)); [apply IH|reflexivity].
Qed.

Lemma resolves_key root l ms k v :
  resolves root l (VMap ms) -> lookup_key k ms = Some v -> resolves root (Key k l) v.
Proof. unfold resolves. intros H Hk. rewrite to_owned_key, resolve_app, H. cbn. rewrite Hk. reflexivity. Qed.

Lemma resolves_index root l vs i v :
  resolves root l (VSeq vs) -> nth_opt vs (N.to_nat i) = Some v -> resolves root (Index i l) v.
Proof. unfold resolves. intros H Hi. rewrite to_owned_index, resolve_app, H. cbn. rewrite Hi. reflexivity. Qed.

Lemma resolves_some root l v : resolves root l v -> isSome (resolve root (to_owned l)) = true.
Proof. unfold resolves. intros ->. reflexivity. Qed.

(** *** nested induction on values *)
Section VInd.
  Variable P : value -> Prop.
  Hypothesis Hnull : P VNull.
  Hypothesis Hbool : forall b, P (VBool b).
  Hypothesis Hint : forall n, P (VInt n).
  Hypothesis Hneg : forall z, P (VNeg z).
  Hypothesis Hfloat : forall b, P (VFloat b).
  Hypothesis Hstr : forall s, P (VStr s).
  Hypothesis Hseq : forall l, Forall P l -> P (VSeq l).
  Hypothesis Hmap : forall l, Forall (fun kv => P (snd kv)) l -> P (VMap l).
  Fixpoint value_ind' (v : value) : P v :=
    match v with
    | VNull => Hnull | VBool b => Hbool b | VInt n => Hint n | VNeg z => Hneg z
    | VFloat b => Hfloat b | VStr s => Hstr s
    | VSeq l => Hseq l ((fix go (l : list value) : Forall P l :=
                           match l with [] => Forall_nil _ | x :: r => Forall_cons _ (value_ind' x) (go r) end) l)
    | VMap l => Hmap l ((fix go (l : list (string * value)) : Forall (fun kv => P (snd kv)) l :=
                           match l with
                           | [] => Forall_nil _
                           | (k, x) :: r => Forall_cons (k, x) (value_ind' x) (go r)
                           end) l)
    end.
End VInd.

Lemma value_eqb_refl v : value_eqb v v = true.
Proof.
  induction v as [| b | n | z | b | s | l IH | l IH] using value_ind'; cbn [value_eqb];
    try reflexivity.
  - destruct b; reflexivity.
  - apply N.eqb_refl.
  - apply Z.eqb_refl.
  - apply N.eqb_refl.
  - apply String.eqb_refl.
  - induction IH as [|x l Hx Hl IHl]; [reflexivity|]. rewrite Hx. exact IHl.
  - induction IH as [|[k x] l Hx Hl IHl]; [reflexivity|]. cbn [snd] in Hx.
    rewrite String.eqb_refl, Hx. exact IHl.
Qed.

Lemma list_value_eqb_refl l : list_eqb value_eqb l l = true.
Proof. induction l as [|x l IH]; [reflexivity|]. cbn. rewrite value_eqb_refl. exact IH. Qed.

(** *** unique keys *)
Lemma nodup_go_spec ms seen :
  (fix go (ms : list (string * value)) (seen : list string) : bool :=
     match ms with
     | [] => true
     | (k, x) :: r => negb (mem_str k seen) && nodup_keys x && go r (k :: seen)
     end) ms seen = true ->
  (forall k x, In (k, x) ms -> nodup_keys x = true /\ mem_str k seen = false)
  /\ (forall pre k x post, ms = pre ++ (k, x) :: post -> ~ In k (map fst pre)).
Proof.
  revert seen. induction ms as [|[k x] ms IH]; intros seen H.
  - split; [intros ? ? []|]. intros pre k x post E. destruct pre; discriminate.
  - apply Bool.andb_true_iff in H. destruct H as [H Hr]. apply Bool.andb_true_iff in H. destruct H as [Hk Hx].
    apply Bool.negb_true_iff in Hk. destruct (IH _ Hr) as [H1 H2]. split.
    + intros k' x' [Heq|Hin].
      * inversion Heq; subst. split; assumption.
      * destruct (H1 k' x' Hin) as [Ha Hb]. split; [exact Ha|].
        cbn [mem_str] in Hb. destruct (String.eqb k' k); [discriminate|exact Hb].
    + intros pre k' x' post E. destruct pre as [|[k0 x0] pre]; [intros []|].
      cbn [app] in E. inversion E; subst. cbn [map fst]. intros [Heq|Hin].
      * subst k'. assert (Hin' : In (k0, x') (pre ++ (k0, x') :: post)) by (apply in_elt).
        destruct (H1 _ _ Hin') as [_ Hb]. cbn [mem_str] in Hb. rewrite String.eqb_refl in Hb. discriminate.
      * apply (H2 pre k' x' post eq_refl). exact Hin.
Qed.

Lemma lookup_key_notin k ms : ~ In k (map fst ms) -> lookup_key k ms = None.
Proof.
  induction ms as [|[k' v] ms IH]; intros H; [reflexivity|]. cbn [lookup_key].
  destruct (String.eqb_spec k' k) as [->|Hne]; [exfalso; apply H; left; reflexivity|].
  apply IH. intros Hin. apply H. right. exact Hin.
Qed.

Lemma lookup_key_in_nodup ms k v :
  nodup_keys (VMap ms) = true -> In (k, v) ms -> lookup_key k ms = Some v.
Proof.
  intros Hnd Hin. cbn [nodup_keys] in Hnd. apply nodup_go_spec in Hnd. destruct Hnd as [_ H2].
  apply in_split in Hin. destruct Hin as (pre & post & ->).
  specialize (H2 pre k v post eq_refl).
  clear -H2. induction pre as [|[k' v'] pre IH]; cbn [app lookup_key].
  - rewrite String.eqb_refl. reflexivity.
  - destruct (String.eqb_spec k' k) as [->|Hne]; [exfalso; apply H2; left; reflexivity|].
    apply IH. intros Hin. apply H2. right. exact Hin.
Qed.

Lemma nodup_keys_member ms k v : nodup_keys (VMap ms) = true -> In (k, v) ms -> nodup_keys v = true.
Proof.
  intros Hnd Hin. cbn [nodup_keys] in Hnd. apply nodup_go_spec in Hnd. destruct Hnd as [H1 _].
  apply (H1 k v Hin).
Qed.

Lemma lookup_key_in k ms v : lookup_key k ms = Some v -> In (k, v) ms.
Proof.
  induction ms as [|[k' x] ms IH]; [discriminate|]. cbn [lookup_key].
  destruct (String.eqb_spec k' k) as [->|Hne]; [intros H; inversion H; left; reflexivity|].
  intros H. right. apply IH. exact H.
Qed.

Lemma nth_opt_in {A} (l : list A) n x : nth_opt l n = Some x -> In x l.
Proof.
  revert n. induction l as [|y l IH]; intros n H; [destruct n; discriminate|].
  destruct n; cbn [nth_opt] in H; [inversion H; left; reflexivity|right; eapply IH; exact H].
Qed.

Lemma nodup_keys_resolve root p v : nodup_keys root = true -> resolve root p = Some v -> nodup_keys v = true.
Proof.
  revert root. induction p as [|s p IH]; intros root Hnd H; cbn [resolve] in H.
  - inversion H; subst. exact Hnd.
  - destruct s as [k|i].
    + destruct root; try discriminate. destruct (lookup_key k l) as [x|] eqn:E; [|discriminate].
      apply (IH x); [|exact H]. eapply nodup_keys_member; [exact Hnd|apply lookup_key_in; exact E].
    + destruct root; try discriminate. destruct (nth_opt l (N.to_nat i)) as [x|] eqn:E; [|discriminate].
      apply (IH x); [|exact H]. cbn [nodup_keys] in Hnd. rewrite forallb_forall in Hnd. apply Hnd.
      eapply nth_opt_in; exact E.
Qed.

(** *** single reports *)
Lemma kind_true_ivk root l v acc :
  resolves root l v -> existsb (vkind_eqb (kind_of v)) acc = false ->
  kind_true root (IncorrectValueKind v acc) l = true.
Proof. unfold resolves, kind_true. intros -> H. rewrite value_eqb_refl, H. reflexivity. Qed.

Lemma kind_true_unexpected root l v m : resolves root l v -> kind_true root (Unexpected m) l = true.
Proof. unfold resolves, kind_true. intros ->. reflexivity. Qed.

Lemma calls_fail_ivk root a v acc l :
  resolves root l v -> existsb (vkind_eqb (kind_of v)) acc = false ->
  Calls (call_ok root) (fail_with a (IncorrectValueKind v acc) l).
Proof. intros H Ha. constructor; [apply kind_true_ivk; assumption|]. intros i ans. constructor. Qed.

Lemma calls_fail_unexpected root a m v l :
  resolves root l v -> Calls (call_ok root) (fail_with a (Unexpected m) l).
Proof. intros H. constructor; [eapply kind_true_unexpected; exact H|]. intros i ans. constructor. Qed.

Lemma calls_ret {X} root (x : X) : Calls (call_ok root) (Ret x).
Proof. constructor. Qed.

Lemma calls_user {X} (P : call -> Prop) fn args (k : prog X) :
  P (CUser fn args) -> Calls P k -> Calls P (user_call fn args k).
Proof. intros Hc Hk. constructor; [exact Hc|]. intros _ _. exact Hk. Qed.

(** Leaves + Calls give Tree *)
Lemma leaves_calls_tree {X} (P : call -> Prop) (ok : X -> Prop) (p : prog X) :
  Leaves ok p -> Calls P p -> Tree P ok p.
Proof.
  induction 1 as [x Hx | c k Hu Hk IH]; intros Hc.
  - constructor. exact Hx.
  - inversion Hc as [|c' k' Hpc Hcalls]; subst.
    constructor; [exact Hpc|]. intros i ans. apply IH. apply Hcalls.
Qed.

Lemma tree_calls {X} (P : call -> Prop) (ok : X -> Prop) (p : prog X) : Tree P ok p -> Calls P p.
Proof. induction 1; constructor; auto. Qed.
