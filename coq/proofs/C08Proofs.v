(** C08: which fields are reported missing, where, with what. *)
From Deserr Require Import Base Pointer Kinds Value Prog Utf8 Scalars Types Deser Monitors.
From Deserr.proofs Require Import ProgProofs LeavesProofs C12Proofs.

(** ** the entry loop never makes a state Missing, and only touches the state of the field whose
       match arm the member's key selects *)

Lemma nth_error_set_nth_same {A} i (x : A) l :
  (i < List.length l)%nat -> nth_error (set_nth i x l) i = Some x.
Proof.
  revert i. induction l as [|y l IH]; intros i H; [cbn in H; lia|].
  destruct i; cbn [set_nth nth_error]; [reflexivity|]. apply IH. cbn in H. lia.
Qed.

Lemma nth_error_set_nth_other {A} i j (x : A) l :
  i <> j -> nth_error (set_nth i x l) j = nth_error l j.
Proof.
  revert i j. induction l as [|y l IH]; intros i j H; [destruct i; reflexivity|].
  destruct i, j; cbn [set_nth nth_error]; try reflexivity; [contradiction|]. apply IH. congruence.
Qed.

Lemma nth_error_set_nth_oob {A} i (x : A) l :
  (List.length l <= i)%nat -> set_nth i x l = l.
Proof.
  revert i. induction l as [|y l IH]; intros i H; [destruct i; reflexivity|].
  destruct i; cbn in H; [lia|]. cbn [set_nth]. rewrite IH by lia. reflexivity.
Qed.

(** the member keys that select field number [i] *)
Definition selects (fs : list rfield) (i : nat) (k : string) : Prop :=
  exists f, find_field fs k 0 = Some (i, f).

Definition missing_after (fs : list rfield) (sts0 : list fstate) (ms : list (string * value))
           (so : step_out) : Prop :=
  match so with
  | SGo _ sts' =>
    List.length sts' = List.length sts0 /\
    forall i, nth_error sts' i = Some FMissing <->
              (nth_error sts0 i = Some FMissing /\ forall k v, In (k, v) ms -> ~ selects fs i k)
  | SStop _ => True
  end.

Definition touched (i : nat) (sts : list fstate) (so : step_out) : Prop :=
  match so with
  | SGo _ sts' => exists st, st <> FMissing /\ sts' = set_nth i st sts
  | SStop _ => True
  end.

Lemma field_entry_states a f i k v l acc sts :
  rfield_np f -> Leaves (touched i sts) (field_entry a f i k v l acc sts).
Proof.
  intros Hf. unfold field_entry. apply leaves_bind with (okp := np); [apply Hf|].
  intros [x|e|site] Hn; [| |destruct Hn].
  - destruct (rf_from f) as [|fn|fn].
    + constructor. exists (FSome x). split; [discriminate|reflexivity].
    + apply leaves_user. constructor. exists (FSome (OFn fn x)). split; [discriminate|reflexivity].
    + apply leaves_user. destruct (ufail x).
      * apply Leaves_call; [reflexivity|]. intros i1 a1. apply Leaves_call; [reflexivity|]. intros i2 a2.
        destruct (a1 && a2); constructor; [|exact I]. exists FErr. split; [discriminate|reflexivity].
      * constructor. exists (FSome (OFn fn x)). split; [discriminate|reflexivity].
  - apply Leaves_call; [reflexivity|]. intros i' ans. destruct ans; constructor; [|exact I].
    exists FErr. split; [discriminate|reflexivity].
Qed.

Lemma unknown_key_states a d keys k l acc sts :
  Leaves (fun so => match so with SGo _ sts' => sts' = sts | SStop _ => True end)
         (unknown_key a d keys k l acc sts).
Proof.
  unfold unknown_key. destruct d as [| |fn].
  - constructor. reflexivity.
  - apply Leaves_call; [reflexivity|]. intros i ans. destruct ans; constructor; [reflexivity|exact I].
  - apply leaves_user. apply Leaves_call; [reflexivity|]. intros i ans. destruct ans; constructor; [reflexivity|exact I].
Qed.

Lemma find_field_bound fs k i0 i f : find_field fs k i0 = Some (i, f) -> (i0 <= i < i0 + List.length fs)%nat.
Proof.
  revert i0. induction fs as [|g fs IH]; intros i0 H; [discriminate|]. cbn [find_field List.length] in *.
  destruct (String.eqb (rf_key g) k); [inversion H; subst; lia|]. apply IH in H. lia.
Qed.

Lemma entries_missing_inv a fs d keys l :
  Forall rfield_np fs ->
  forall ms acc sts,
    List.length sts = List.length fs ->
    Leaves (missing_after fs sts ms) (entries_loop a fs d keys l ms acc sts).
Proof.
  intros Hfs. induction ms as [|[k v] ms IH]; intros acc sts Hlen; cbn [entries_loop].
  - constructor. split; [reflexivity|]. intros i. split; [intros H; split; [exact H|intros ? ? []]|intros [H _]; exact H].
  - destruct (find_field fs k 0) as [[i f]|] eqn:E.
    + apply leaves_bind with (okp := touched i sts).
      * apply field_entry_states. rewrite Forall_forall in Hfs. apply Hfs. eapply find_field_in'; exact E.
      * intros [acc' sts'|r] Ht; [|constructor; exact I].
        destruct Ht as [st [Hst ->]].
        pose proof (find_field_bound _ _ _ _ _ E) as Hb. cbn in Hb.
        eapply leaves_weaken; [|apply IH; rewrite set_nth_length; exact Hlen].
        intros [acc2 sts2|r2] H2; [|exact I]. destruct H2 as [Hl2 Hiff]. rewrite set_nth_length in Hl2.
        split; [exact Hl2|]. intros j. rewrite Hiff. split.
        -- intros [Hj Hrest]. destruct (Nat.eq_dec i j) as [<-|Hne].
           ++ rewrite nth_error_set_nth_same in Hj by lia. inversion Hj. contradiction.
           ++ rewrite nth_error_set_nth_other in Hj by exact Hne. split; [exact Hj|].
              intros k' v' [Heq|Hin]; [|apply (Hrest k' v' Hin)].
              inversion Heq; subst. intros [f' Hsel]. rewrite E in Hsel. inversion Hsel. contradiction.
        -- intros [Hj Hall]. destruct (Nat.eq_dec i j) as [<-|Hne].
           ++ exfalso. apply (Hall k v (or_introl eq_refl)). exists f. exact E.
           ++ rewrite nth_error_set_nth_other by exact Hne. split; [exact Hj|].
              intros k' v' Hin. apply (Hall k' v'). right; exact Hin.
    + apply leaves_bind with (okp := fun so => match so with SGo _ sts' => sts' = sts | SStop _ => True end).
      * apply unknown_key_states.
      * intros [acc' sts'|r] Ht; [|constructor; exact I]. subst sts'.
        eapply leaves_weaken; [|apply IH; exact Hlen].
        intros [acc2 sts2|r2] H2; [|exact I]. destruct H2 as [Hl2 Hiff].
        split; [exact Hl2|]. intros j. rewrite Hiff. split.
        -- intros [Hj Hrest]. split; [exact Hj|]. intros k' v' [Heq|Hin]; [|apply (Hrest k' v' Hin)].
           inversion Heq; subst. intros [f' Hsel]. rewrite E in Hsel. discriminate.
        -- intros [Hj Hall]. split; [exact Hj|]. intros k' v' Hin. apply (Hall k' v'). right; exact Hin.
Qed.

(** with distinct keys, "no member selects field i" is "the field's key is absent" *)
Lemma find_field_nth fs k i0 i f :
  find_field fs k i0 = Some (i, f) -> rf_key f = k /\ nth_error fs (i - i0) = Some f.
Proof.
  revert i0. induction fs as [|g fs IH]; intros i0 H; [discriminate|]. cbn [find_field] in H.
  destruct (String.eqb_spec (rf_key g) k) as [He|Hne].
  - inversion H; subst. rewrite Nat.sub_diag. split; reflexivity.
  - pose proof (find_field_bound _ _ _ _ _ H) as Hb. destruct (IH _ H) as [Hk Hn]. split; [exact Hk|].
    replace (i - i0)%nat with (S (i - S i0)) by lia. exact Hn.
Qed.

Lemma find_field_finds fs k i0 j f :
  NoDup (map rf_key fs) -> nth_error fs j = Some f -> rf_key f = k ->
  find_field fs k i0 = Some ((i0 + j)%nat, f).
Proof.
  revert i0 j. induction fs as [|g fs IH]; intros i0 j Hnd Hn Hk; [destruct j; discriminate|].
  cbn [find_field map] in *. inversion Hnd as [|? ? Hnotin Hnd']; subst.
  destruct j as [|j]; cbn [nth_error] in Hn.
  - inversion Hn; subst. rewrite String.eqb_refl. rewrite Nat.add_0_r. reflexivity.
  - destruct (String.eqb_spec (rf_key g) (rf_key f)) as [He|Hne].
    + exfalso. apply Hnotin. rewrite He. apply in_map. eapply nth_error_In; exact Hn.
    + rewrite (IH (S i0) j Hnd' Hn eq_refl). f_equal. f_equal. lia.
Qed.

Lemma selects_iff_key fs i f k :
  NoDup (map rf_key fs) -> nth_error fs i = Some f -> (selects fs i k <-> rf_key f = k).
Proof.
  intros Hnd Hn. split.
  - intros [f' Hsel]. destruct (find_field_nth _ _ _ _ _ Hsel) as [Hk Hn']. rewrite Nat.sub_0_r in Hn'.
    rewrite Hn in Hn'. assert (Hff : f = f') by congruence. rewrite Hff. exact Hk.
  - intros Hk. exists f. rewrite (find_field_finds fs k 0 i f Hnd Hn Hk). reflexivity.
Qed.

(** ** the missing loop reports exactly the fields whose state is Missing, in field order *)

(** what the missing-field report of a field looks like (kind, or custom function + user error) *)
Inductive mreport := MKind (k : ekind) | MUser (fn : N) (args : list uarg).

Definition expected_missing (l : vpr) (fs : list rfield) (sts : list fstate) : list mreport :=
  flat_map (fun p => match snd p with
                     | FMissing =>
                       match rf_missing (fst p) with
                       | None => [MKind (MissingField (rf_key (fst p)))]
                       | Some fn => [MUser fn [AStr (rf_key (fst p)); ALoc (to_owned l)]]
                       end
                     | _ => []
                     end) (combine fs sts).

(** the reports found in a trace segment: every one is made at [l] *)
Fixpoint missing_reports_of (a : N) (l : vpr) (ext : list call) : option (list mreport) :=
  match ext with
  | [] => Some []
  | CError a' _ k l' :: r =>
    if N.eqb a a' && vpr_eqb l l' then option_map (cons (MKind k)) (missing_reports_of a l r) else None
  | CUser fn args :: CMergeU a' _ (fn', args') l' :: r =>
    if N.eqb a a' && vpr_eqb l l' && N.eqb fn fn' then option_map (cons (MUser fn args)) (missing_reports_of a l r) else None
  | _ => None
  end.

Lemma vpr_eqb_refl l : vpr_eqb l l = true.
Proof. induction l; cbn; rewrite ?String.eqb_refl, ?N.eqb_refl, ?IHl; reflexivity. Qed.

Lemma missing_loop_keep_going a l :
  forall fs sts acc s,
    exists ext acc',
      run (fun _ => true) (missing_loop a l fs sts acc) s = (inl acc', s ++ ext)
      /\ missing_reports_of a l ext = Some (expected_missing l fs sts)
      /\ (acc' = None <-> acc = None /\ expected_missing l fs sts = []).
Proof.
  induction fs as [|f fs IH]; intros sts acc s; cbn [missing_loop].
  - exists [], acc. rewrite app_nil_r. repeat split; try reflexivity; intros; tauto.
  - destruct sts as [|st sts].
    + exists [], acc. rewrite app_nil_r. repeat split; try reflexivity; intros; tauto.
    + unfold expected_missing. cbn [combine flat_map fst snd]. fold (expected_missing l fs sts).
      destruct st.
      * destruct (rf_missing f) as [fn|].
        -- rewrite run_user_call. cbn [report_user run].
           set (s1 := (s ++ [CUser fn [AStr (rf_key f); ALoc (to_owned l)]]) ++
                      [CMergeU a acc (fn, [AStr (rf_key f); ALoc (to_owned l)]) l]).
           destruct (IH sts (Some (N.of_nat (List.length (s ++ [CUser fn [AStr (rf_key f); ALoc (to_owned l)]])))) s1)
             as (ext & acc' & Hrun & Hrep & Hacc).
           exists (CUser fn [AStr (rf_key f); ALoc (to_owned l)]
                   :: CMergeU a acc (fn, [AStr (rf_key f); ALoc (to_owned l)]) l :: ext), acc'.
           split; [rewrite Hrun; unfold s1; rewrite <- !app_assoc; reflexivity|].
           split; [cbn [missing_reports_of app]; rewrite N.eqb_refl, vpr_eqb_refl, N.eqb_refl; cbn [andb]; rewrite Hrep; reflexivity|].
           split; [intros H; apply Hacc in H; destruct H; discriminate|intros [_ H]; discriminate].
        -- cbn [report run].
           destruct (IH sts (Some (N.of_nat (List.length s))) (s ++ [CError a acc (MissingField (rf_key f)) l]))
             as (ext & acc' & Hrun & Hrep & Hacc).
           exists (CError a acc (MissingField (rf_key f)) l :: ext), acc'.
           split; [rewrite Hrun; rewrite <- app_assoc; reflexivity|].
           split; [cbn [missing_reports_of app]; rewrite N.eqb_refl, vpr_eqb_refl; cbn [andb]; rewrite Hrep; reflexivity|].
           split; [intros H; apply Hacc in H; destruct H; discriminate|intros [_ H]; discriminate].
      * destruct (IH sts acc s) as (ext & acc' & Hrun & Hrep & Hacc). exists ext, acc'. cbn [app]. auto.
      * destruct (IH sts acc s) as (ext & acc' & Hrun & Hrep & Hacc). exists ext, acc'. cbn [app]. auto.
Qed.

(** the resolved fields of a compiled struct, as the interpreter builds them *)
Definition rfields_of (fs : list (cfield ty)) : list rfield :=
  map (fun f => mkRF (cf_name f) (cf_key f) (deser (cf_ty f)) (cf_alg f) (cf_from f) (cf_default f)
                     (cf_map f) (cf_missing f)) fs.

Lemma rfields_of_np fs : Forall rfield_np (rfields_of fs).
Proof.
  unfold rfields_of. rewrite Forall_forall. intros rf Hin. apply in_map_iff in Hin.
  destruct Hin as [cf [<- _]]. intros a v l. cbn [rf_run]. apply deser_np.
Qed.

Lemma deser_struct_unfold s val a ms l :
  deser (TStruct s val) a (VMap ms) l
  = and_then (run_fields a (rfields_of (cs_fields s)) (cs_skipped s) (cs_deny s) OStruct ms l) (validate a val l).
Proof. reflexivity. Qed.

Theorem entries_missing_states script a fs d keys l ms acc s :
  let rfs := rfields_of fs in
  let sts0 := map (fun f => state_of_default (rf_default f)) rfs in
  missing_after rfs sts0 ms (fst (run script (entries_loop a rfs d keys l ms acc sts0) s)).
Proof.
  intros rfs sts0. apply leaves_sound. apply entries_missing_inv; [apply rfields_of_np|].
  unfold sts0. rewrite map_length. reflexivity.
Qed.
