(** Insertion into a strictly sorted association list commutes for distinct keys: the result of
    inserting a batch of distinct keys does not depend on the order. Generic in the comparison;
    instantiated for [jmap_insert] (String.compare) and [map_insert] (key_cmp). *)
From Coq Require Import Permutation.
From Deserr Require Import Base Pointer Kinds Value Prog Utf8 Scalars Types Deser.
From Deserr.proofs Require Import JsonProofs.
Local Open Scope list_scope.

Section SortedInsert.
  Variables (K V : Type) (cmp : K -> K -> comparison).
  Hypothesis cmp_anti : forall a b, cmp b a = CompOpp (cmp a b).
  Hypothesis cmp_lt_trans : forall a b c, cmp a b = Lt -> cmp b c = Lt -> cmp a c = Lt.
  Hypothesis cmp_eq_l : forall a b c, cmp a b = Eq -> cmp a c = cmp b c.

  Fixpoint ins (k : K) (v : V) (l : list (K * V)) : list (K * V) :=
    match l with
    | [] => [(k, v)]
    | (k', v') :: r =>
      match cmp k k' with
      | Eq => (k, v) :: r
      | Lt => (k, v) :: (k', v') :: r
      | Gt => (k', v') :: ins k v r
      end
    end.

  (** every key of [l] is strictly above [k] *)
  Definition above (k : K) (l : list (K * V)) : Prop := forall p, In p l -> cmp k (fst p) = Lt.

  Fixpoint ssorted (l : list (K * V)) : Prop :=
    match l with
    | [] => True
    | (k, _) :: r => above k r /\ ssorted r
    end.

  Lemma cmp_gt_lt a b : cmp a b = Gt -> cmp b a = Lt.
  Proof. intros H. rewrite cmp_anti, H. reflexivity. Qed.
  Lemma cmp_lt_gt a b : cmp a b = Lt -> cmp b a = Gt.
  Proof. intros H. rewrite cmp_anti, H. reflexivity. Qed.
  Lemma cmp_eq_sym a b : cmp a b = Eq -> cmp b a = Eq.
  Proof. intros H. rewrite cmp_anti, H. reflexivity. Qed.
  Lemma cmp_eq_r a b c : cmp a b = Eq -> cmp c a = cmp c b.
  Proof. intros H. rewrite (cmp_anti a c), (cmp_anti b c), (cmp_eq_l a b c H). reflexivity. Qed.

  Lemma above_ins k k0 v l : cmp k k0 = Lt -> above k l -> above k (ins k0 v l).
  Proof.
    intros Hk. induction l as [|[k' v'] r IH]; intros Ha p Hp; cbn [ins] in Hp.
    - destruct Hp as [<-|[]]. exact Hk.
    - destruct (cmp k0 k') eqn:E.
      + destruct Hp as [<-|Hp]; [exact Hk|]. apply Ha. right. exact Hp.
      + destruct Hp as [<-|Hp]; [exact Hk|]. apply Ha. exact Hp.
      + destruct Hp as [<-|Hp]; [apply Ha; left; reflexivity|].
        apply IH; [|exact Hp]. intros q Hq. apply Ha. right. exact Hq.
  Qed.

  Lemma ins_sorted k v l : ssorted l -> ssorted (ins k v l).
  Proof.
    induction l as [|[k' v'] r IH]; intros Hs; cbn [ins ssorted]; [split; [intros p []|exact I]|].
    destruct Hs as [Ha Hs]. destruct (cmp k k') eqn:E; cbn [ssorted].
    - split; [|exact Hs]. intros p Hp. rewrite (cmp_eq_l k k' _ E). apply Ha. exact Hp.
    - split; [|split; assumption]. intros p [<-|Hp]; [exact E|]. apply cmp_lt_trans with k'; [exact E|apply Ha; exact Hp].
    - split; [|apply IH; exact Hs]. apply above_ins; [apply cmp_gt_lt; exact E|exact Ha].
  Qed.

  (** inserting below everything *)
  Lemma ins_above k v l : above k l -> ins k v l = (k, v) :: l.
  Proof.
    destruct l as [|[k' v'] r]; intros Ha; [reflexivity|]. cbn [ins]. pose proof (Ha (k', v') (or_introl eq_refl)) as H. cbn [fst] in H. rewrite H. reflexivity.
  Qed.

  Lemma ins_comm k1 v1 k2 v2 l :
    ssorted l -> cmp k1 k2 <> Eq -> ins k1 v1 (ins k2 v2 l) = ins k2 v2 (ins k1 v1 l).
  Proof.
    intros Hs Hne. induction l as [|[k' v'] r IH]; cbn [ins].
    - destruct (cmp k1 k2) eqn:E; [contradiction| |].
      + rewrite (cmp_lt_gt _ _ E). reflexivity.
      + rewrite (cmp_gt_lt _ _ E). reflexivity.
    - destruct Hs as [Ha Hs].
      assert (Hfin : forall x y, cmp k1 k2 = x -> cmp k2 k1 = y -> True) by (intros; exact I).
      destruct (cmp k2 k') eqn:E2; destruct (cmp k1 k') eqn:E1.
      + exfalso. apply Hne. rewrite (cmp_eq_r k2 k' k1 E2). exact E1.
      + assert (E12 : cmp k1 k2 = Lt) by (rewrite (cmp_eq_r k2 k' k1 E2); exact E1).
        pose proof (cmp_lt_gt _ _ E12) as E21.
        repeat (cbn [ins]; rewrite ?E1, ?E2, ?E12, ?E21). reflexivity.
      + assert (E12 : cmp k1 k2 = Gt) by (rewrite (cmp_eq_r k2 k' k1 E2); exact E1).
        pose proof (cmp_gt_lt _ _ E12) as E21.
        repeat (cbn [ins]; rewrite ?E1, ?E2, ?E12, ?E21). reflexivity.
      + assert (E21 : cmp k2 k1 = Lt) by (rewrite (cmp_eq_r k1 k' k2 E1); exact E2).
        pose proof (cmp_lt_gt _ _ E21) as E12.
        repeat (cbn [ins]; rewrite ?E1, ?E2, ?E12, ?E21). reflexivity.
      + destruct (cmp k1 k2) eqn:E12; [contradiction| |].
        * pose proof (cmp_lt_gt _ _ E12) as E21. repeat (cbn [ins]; rewrite ?E1, ?E2, ?E12, ?E21). reflexivity.
        * pose proof (cmp_gt_lt _ _ E12) as E21. repeat (cbn [ins]; rewrite ?E1, ?E2, ?E12, ?E21). reflexivity.
      + assert (E21 : cmp k2 k1 = Lt) by (apply cmp_lt_trans with k'; [exact E2|apply cmp_gt_lt; exact E1]).
        pose proof (cmp_lt_gt _ _ E21) as E12.
        repeat (cbn [ins]; rewrite ?E1, ?E2, ?E12, ?E21). reflexivity.
      + assert (E21 : cmp k2 k1 = Gt) by (rewrite (cmp_eq_r k1 k' k2 E1); exact E2).
        pose proof (cmp_gt_lt _ _ E21) as E12.
        repeat (cbn [ins]; rewrite ?E1, ?E2, ?E12, ?E21). reflexivity.
      + assert (E12 : cmp k1 k2 = Lt) by (apply cmp_lt_trans with k'; [exact E1|apply cmp_gt_lt; exact E2]).
        pose proof (cmp_lt_gt _ _ E12) as E21.
        repeat (cbn [ins]; rewrite ?E1, ?E2, ?E12, ?E21). reflexivity.
      + repeat (cbn [ins]; rewrite ?E1, ?E2). rewrite (IH Hs). reflexivity.
  Qed.

  (** a batch of insertions *)
  Definition ins_all (kvs : list (K * V)) (m : list (K * V)) : list (K * V) :=
    fold_left (fun m kv => ins (fst kv) (snd kv) m) kvs m.

  Lemma ins_all_sorted kvs : forall m, ssorted m -> ssorted (ins_all kvs m).
  Proof. induction kvs as [|kv kvs IH]; intros m Hm; [exact Hm|]. apply IH. apply ins_sorted. exact Hm. Qed.

  Hypothesis cmp_eq_eq : forall a b, cmp a b = Eq -> a = b.

  Lemma ins_all_perm kvs kvs' :
    Permutation kvs kvs' -> NoDup (map fst kvs) ->
    forall m, ssorted m -> ins_all kvs m = ins_all kvs' m.
  Proof.
    induction 1 as [|x l l' HP IH|x y l|l l' l'' HP1 IH1 HP2 IH2]; intros Hnd m Hm.
    - reflexivity.
    - cbn [ins_all fold_left]. apply IH; [inversion Hnd; assumption|apply ins_sorted; exact Hm].
    - unfold ins_all. cbn [fold_left]. rewrite ins_comm; [reflexivity|exact Hm|].
      intros E. apply cmp_eq_eq in E. cbn [map] in Hnd. inversion Hnd as [|? ? Hni _]; subst. apply Hni. left. exact E.
    - rewrite IH1 by assumption. apply IH2; [|exact Hm].
      eapply Permutation_NoDup; [apply Permutation_map; exact HP1|exact Hnd].
  Qed.
End SortedInsert.

(** *** strings *)
Lemma str_cmp_eq_l a b c : String.compare a b = Eq -> String.compare a c = String.compare b c.
Proof. intros H. apply String.compare_eq_iff in H. subst. reflexivity. Qed.

Lemma jmap_insert_ins k v l : jmap_insert k v l = ins string value String.compare k v l.
Proof. induction l as [|[k' v'] r IH]; [reflexivity|]. cbn [jmap_insert ins]. rewrite IH. reflexivity. Qed.

(** *** map keys *)
Definition is_key (o : out) : Prop := match o with OBool _ | OInt _ | OStr _ => True | _ => False end.

Lemma key_cmp_anti a b : key_cmp b a = CompOpp (key_cmp a b).
Proof.
  unfold key_cmp. destruct (key_rank a) as [[r1 z1] s1], (key_rank b) as [[r2 z2] s2].
  rewrite (N.compare_antisym r1 r2), (Z.compare_antisym z1 z2), (String.compare_antisym s2 s1).
  destruct (r1 ?= r2)%N; cbn [CompOpp]; try reflexivity. destruct (z1 ?= z2)%Z; reflexivity.
Qed.

Lemma key_cmp_eq_l a b c : key_cmp a b = Eq -> key_cmp a c = key_cmp b c.
Proof.
  unfold key_cmp. destruct (key_rank a) as [[r1 z1] s1], (key_rank b) as [[r2 z2] s2], (key_rank c) as [[r3 z3] s3].
  destruct (r1 ?= r2)%N eqn:Er; try discriminate. destruct (z1 ?= z2)%Z eqn:Ez; try discriminate. intros Es.
  apply N.compare_eq in Er. apply Z.compare_eq in Ez. apply String.compare_eq_iff in Es. subst. reflexivity.
Qed.

Lemma key_cmp_lt_trans a b c : key_cmp a b = Lt -> key_cmp b c = Lt -> key_cmp a c = Lt.
Proof.
  unfold key_cmp. destruct (key_rank a) as [[r1 z1] s1], (key_rank b) as [[r2 z2] s2], (key_rank c) as [[r3 z3] s3].
  destruct (r1 ?= r2)%N eqn:E12; try discriminate; destruct (r2 ?= r3)%N eqn:E23; try discriminate;
    rewrite ?N.compare_eq_iff, ?N.compare_lt_iff in *; subst.
  - rewrite N.compare_refl.
    destruct (z1 ?= z2)%Z eqn:Z12; try discriminate; destruct (z2 ?= z3)%Z eqn:Z23; try discriminate;
      rewrite ?Z.compare_eq_iff, ?Z.compare_lt_iff in *; subst.
    + rewrite Z.compare_refl. apply str_lt_trans.
    + intros _ _. replace (z2 ?= z3)%Z with Lt by (symmetry; apply Z.compare_lt_iff; exact Z23). reflexivity.
    + intros _ _. replace (z1 ?= z3)%Z with Lt by (symmetry; apply Z.compare_lt_iff; exact Z12). reflexivity.
    + intros _ _. replace (z1 ?= z3)%Z with Lt by (symmetry; apply Z.compare_lt_iff; lia). reflexivity.
  - intros _ _. replace (r3 ?= r3)%N with Eq in * by (symmetry; apply N.compare_refl).
    replace (r2 ?= r3)%N with Lt by (symmetry; apply N.compare_lt_iff; exact E23). reflexivity.
  - intros _ _. replace (r1 ?= r3)%N with Lt by (symmetry; apply N.compare_lt_iff; exact E12). reflexivity.
  - intros _ _. replace (r1 ?= r3)%N with Lt by (symmetry; apply N.compare_lt_iff; lia). reflexivity.
Qed.

Lemma key_cmp_eq_eq a b : is_key a -> is_key b -> key_cmp a b = Eq -> a = b.
Proof.
  unfold key_cmp. destruct a; try contradiction; destruct b; try contradiction; intros _ _; cbn [key_rank].
  - destruct b, b0; cbn; try discriminate; reflexivity.
  - cbn. discriminate.
  - cbn. discriminate.
  - cbn. discriminate.
  - rewrite N.compare_refl. destruct (z ?= z0)%Z eqn:E; try discriminate. apply Z.compare_eq in E. subst. reflexivity.
  - cbn. discriminate.
  - cbn. discriminate.
  - cbn. discriminate.
  - rewrite N.compare_refl, Z.compare_refl. intros E. apply String.compare_eq_iff in E. subst. reflexivity.
Qed.

Lemma map_insert_ins k v l : map_insert k v l = ins out out key_cmp k v l.
Proof. induction l as [|[k' v'] r IH]; [reflexivity|]. cbn [map_insert ins]. rewrite IH. reflexivity. Qed.

Lemma parse_key_is_key kp s o : parse_key kp s = inl o -> is_key o.
Proof.
  unfold parse_key. destruct kp.
  - intros H. inversion H. exact I.
  - destruct (parse_int d s); intros H; inversion H. exact I.
  - destruct (String.eqb s "true"); [intros H; inversion H; exact I|].
    destruct (String.eqb s "false"); intros H; inversion H. exact I.
Qed.
